module galaxyverif/conformance

go 1.21
