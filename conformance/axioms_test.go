// Package conformance samples the ASSUMED facts about standard-library functions that the contracts
// in /verif/contracts/external/base.spec state as axioms or postconditions. This is NOT part of any
// proof: it is a sanity check that an assumption is not plainly false (run: tools/conformance.sh).
package conformance

import (
	"math/rand"
	"net"
	"path/filepath"
	"strings"
	"testing"
)

func randStr(r *rand.Rand, alphabet string, max int) string {
	n := r.Intn(max + 1)
	b := make([]byte, n)
	for i := range b {
		b[i] = alphabet[r.Intn(len(alphabet))]
	}
	return string(b)
}

const alpha = "abcXYZ_-/.09 \tÄ"

// axiom prefixOfConcat, lowerIdempotent, lowerOfLowerLiterals; strings.LastIndex / HasPrefix facts
func TestStringFacts(t *testing.T) {
	r := rand.New(rand.NewSource(1))
	for i := 0; i < 20000; i++ {
		a, b := randStr(r, alpha, 12), randStr(r, alpha, 12)
		if (a + b)[0:len(a)] != a {
			t.Fatalf("prefixOfConcat fails for %q %q", a, b)
		}
		if strings.ToLower(strings.ToLower(a)) != strings.ToLower(a) {
			t.Fatalf("lowerIdempotent fails for %q", a)
		}
		k := strings.LastIndex(a, b)
		if k < -1 || k > len(a) || (k >= 0 && k+len(b) > len(a)) {
			t.Fatalf("LastIndex bounds fail for %q %q: %d", a, b, k)
		}
		if strings.HasPrefix(a, b) && len(a) < len(b) {
			t.Fatalf("hasPrefix length fact fails for %q %q", a, b)
		}
		if n := len(strings.Split(a, b)); b != "" && n < 1 {
			t.Fatalf("Split returned %d parts for %q %q", n, a, b)
		}
		lim := r.Intn(5) - 1
		if parts := strings.SplitN(a, b, lim); (b != "" && lim != 0 && len(parts) < 1) || (lim > 0 && len(parts) > lim) {
			t.Fatalf("SplitN(%q, %q, %d) returned %d parts", a, b, lim, len(parts))
		}
		if strings.Contains(a, b) && b != "" && len(strings.SplitN(a, b, 2)) < 2 {
			t.Fatalf("SplitN of a string containing the separator returned fewer than 2 parts")
		}
	}
	for _, l := range []string{"deployment", "statefulset", "replicaset", "statefulsets"} {
		if strings.ToLower(l) != l {
			t.Fatalf("lowerOfLowerLiterals fails for %q", l)
		}
	}
	if "NULL"+"_" != "NULL_" || len("NULL") != 4 || len("NULL_") != 5 {
		t.Fatal("noRefLiteral")
	}
}

// axiom baseOfJoin for directory-entry names (no separator, not "." / "..", non-empty)
func TestBaseOfJoin(t *testing.T) {
	r := rand.New(rand.NewSource(2))
	for i := 0; i < 20000; i++ {
		d := "/" + randStr(r, "abc/.", 10)
		n := randStr(r, "abcXYZ_-.09", 12)
		if n == "" || n == "." || n == ".." {
			continue
		}
		if filepath.Base(filepath.Join(d, n)) != n {
			t.Fatalf("baseOfJoin fails for %q %q", d, n)
		}
	}
}

// net.IP.String of a 4-byte address depends on its value only and parses back to the same value
// (ipString / ipv4str / ipv4val facts); a 16-byte IPv4-mapped address prints the same text
func TestIPv4Text(t *testing.T) {
	r := rand.New(rand.NewSource(3))
	for i := 0; i < 50000; i++ {
		v := r.Uint32()
		if i < 4 {
			v = []uint32{0, 1, 0xffffffff, 0xfffffffe}[i]
		}
		ip := net.IP{byte(v >> 24), byte(v >> 16), byte(v >> 8), byte(v)}
		s := ip.String()
		back := net.ParseIP(s).To4()
		if back == nil || back[0] != ip[0] || back[1] != ip[1] || back[2] != ip[2] || back[3] != ip[3] {
			t.Fatalf("ipv4val(ipv4str(%d)) != %d (%q)", v, v, s)
		}
		if net.IPv4(ip[0], ip[1], ip[2], ip[3]).String() != s {
			t.Fatalf("16-byte form prints differently for %q", s)
		}
		if net.ParseIP(s).String() != s {
			t.Fatalf("text is not canonical for %q", s)
		}
	}
}

// (*net.IPNet).Contains and ParseCIDR: a successful ParseCIDR returns a non-nil network
func TestParseCIDR(t *testing.T) {
	for _, c := range []string{"10.0.0.0/24", "0.0.0.0/0", "255.255.255.255/32", "10.1.2.3/16"} {
		_, n, err := net.ParseCIDR(c)
		if err != nil || n == nil {
			t.Fatalf("ParseCIDR(%q) = %v, %v", c, n, err)
		}
	}
	if _, n, err := net.ParseCIDR("10.0.0.0"); err == nil || n != nil {
		t.Fatal("ParseCIDR accepts a bare address")
	}
}
