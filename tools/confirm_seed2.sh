#!/bin/bash
# confirm_seed2.sh <seed-id> <demo package dir relative to the repo>: confirms a seeded change in a
# scratch worktree of /repo HEAD: builds, the existing tests of the IPAM packages and of the changed
# packages pass with it, the demonstration fails with it and passes without it. Writes
# seeded/<id>/confirmation2.txt.
export GOFLAGS=-mod=mod GOPROXY=off GOSUMDB=off GOTOOLCHAIN=local
S=$1; D=$2; SD=/verif/seeded/$S
W=/var/tmp/confirm.$$
SKIP='^(TestGetGroupVersionResource|TestResyncCRDPod|TestReleasePolicyForScalableCrd)$'
git -C /repo worktree add --detach $W HEAD >/dev/null 2>&1 || exit 2
P=$SD/patch.diff; [ -f $SD/patch.rebased.diff ] && P=$SD/patch.rebased.diff
{
cd $W
git apply $P || { echo "APPLY-FAILED"; }
go build ./pkg/... ./cni/... ./cmd/... >/dev/null 2>&1 && echo "BUILD ok" || echo "BUILD FAILED"
PK=$(git diff --name-only | xargs -n1 dirname | sort -u | sed 's|^|./|' | tr '\n' ' ')
echo "changed packages: $PK"
go test -vet=off -count=1 -skip "$SKIP" $PK ./pkg/ipam/floatingip/ ./pkg/ipam/schedulerplugin/ ./pkg/ipam/api/ 2>&1 | grep "^ok\|^FAIL\|^---" | sort -u | tail -8
cp $SD/zz_seed_demo_test.go $D/
echo "--- demo WITH change (expect FAIL)"
go test $RACEFLAG -vet=off -count=1 -timeout 180s -run 'Seed' ./$D/ 2>&1 | grep "^ok\|^FAIL\|^--- \|panic:\|DATA RACE" | head -4
git apply -R $P
echo "--- demo WITHOUT change (expect ok)"
go test $RACEFLAG -vet=off -count=1 -timeout 180s -run 'Seed' ./$D/ 2>&1 | grep "^ok\|^FAIL\|^--- \|DATA RACE" | head -3
} > $SD/confirmation2.txt 2>&1
cd /verif; git -C /repo worktree remove --force $W
cat $SD/confirmation2.txt
