#!/bin/bash
# run_seeds.sh [seed-id ...]: applies each seeded change to /repo, runs the quick checks of the
# properties given in its meta (or all claimed checks), records which obligations fail, reverts.
# Nothing is ever committed to /repo.
cd /verif
SEEDS="$@"; [ -z "$SEEDS" ] && SEEDS=$(ls seeded)
PROPS=$(python3 -c "import json;print(' '.join(c['property_id'] for c in json.load(open('/verif/MANIFEST.json'))['checks']))")
[ -n "$SEED_PROPS" ] && PROPS="$SEED_PROPS"
for s in $SEEDS; do
  d=/verif/seeded/$s
  patch=$d/patch.diff; [ -f $d/patch.rebased.diff ] && patch=$d/patch.rebased.diff
  if ! git -C /repo diff --quiet; then echo "/repo is dirty, refusing"; exit 2; fi
  if ! git -C /repo apply $patch 2>/dev/null; then echo "$s: patch does not apply"; echo "patch does not apply to the current tree" > $d/detection.txt; continue; fi
  : > $d/detection.txt
  for p in $PROPS; do
    out=$(./bin/gverif check -prop $p 2>&1)
    v=$(echo "$out" | grep -c "^VIOLATION")
    if [ "$v" -gt 0 ]; then
      echo "$s: DETECTED by $p ($v obligations)"; echo "detected by check $p:" >> $d/detection.txt; echo "$out" | grep "^VIOLATION" | sed 's/replay=[^ ]* //' >> $d/detection.txt
    fi
  done
  [ -s $d/detection.txt ] || { echo "$s: not detected by [$PROPS]"; echo "not detected by the checks of: $PROPS" > $d/detection.txt; }
  git -C /repo checkout -- .
done
# evidence files were rewritten by runs on modified trees: regenerate on the clean tree
for p in $PROPS; do ./bin/gverif check -prop $p >/dev/null 2>&1; done
