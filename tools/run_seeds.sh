#!/bin/bash
# run_seeds.sh [seed-id ...]: applies each seeded change to a scratch worktree of /repo HEAD (never
# to /repo itself), runs the quick checks against it (gverif -repo <worktree>), records which
# obligations fail in seeded/<id>/detection.txt, removes the worktree.
# SEED_PROPS="C01 C05" restricts the properties; default: the seed's own property plus the
# properties listed in seeded/<id>/also_check (one line, optional).
cd /verif
export GVERIF_NORETRY=1   # a broken tree is expected here: no second-chance retries
SEEDS="$@"; [ -z "$SEEDS" ] && SEEDS=$(ls seeded)
W=/var/tmp/seedrepo.$$; V=/var/tmp/seedverif.$$
git -C /repo worktree add --detach $W HEAD >/dev/null 2>&1 || { echo "cannot create worktree"; exit 2; }
mkdir -p $V; ln -s /verif/props.json /verif/contracts /verif/known_findings.txt /verif/replay $V/
ALL=$(python3 -c "import json;print(' '.join(c['property_id'] for c in json.load(open('/verif/MANIFEST.json'))['checks']))")
for s in $SEEDS; do
  d=/verif/seeded/$s
  patch=$d/patch.diff; [ -f $d/patch.rebased.diff ] && patch=$d/patch.rebased.diff
  git -C $W checkout -q -- . 
  if ! git -C $W apply $patch 2>/dev/null; then echo "$s: patch does not apply"; echo "patch does not apply to the current tree" > $d/detection.txt; continue; fi
  own=$(python3 -c "import json;print(json.load(open('$d/meta.json'))['breaks_property'])" 2>/dev/null); [ -z "$own" ] && own=${s%-*}
  PROPS=$(echo "$own $(cat $d/also_check 2>/dev/null)" | tr ' ' '\n' | awk 'NF && !seen[$0]++' | tr '\n' ' ')
  [ -n "$SEED_OWN_ONLY" ] && PROPS="$own"
  [ -n "$SEED_PROPS" ] && PROPS="$SEED_PROPS"
  [ "$SEED_PROPS" = "all" ] && PROPS="$ALL"
  : > $d/detection.txt
  for p in $PROPS; do
    echo " $ALL " | grep -q " $p " || continue
    out=$(./bin/gverif check -prop $p -repo $W -verif $V 2>&1)
    v=$(echo "$out" | grep -c "^VIOLATION")
    if [ "$v" -gt 0 ]; then
      echo "$s: DETECTED by $p ($v obligations)"; echo "detected by check $p:" >> $d/detection.txt; echo "$out" | grep "^VIOLATION" | sed 's/replay=[^ ]* //' >> $d/detection.txt
    fi
  done
  [ -s $d/detection.txt ] || { echo "$s: not detected by [$PROPS]"; echo "not detected by the checks of: $PROPS" > $d/detection.txt; }
done
git -C /repo worktree remove --force $W; rm -rf $V
