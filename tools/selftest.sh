#!/bin/bash
# selftest.sh: runs the engine on its must-fail / must-pass corpus (/verif/selftest/mod/st).
# A Bad* function without a failing obligation is a soundness hole; an Ok* function with one is a
# false alarm. Run after every engine change. Exit 0 only if all expectations hold.
cd /verif
export GVERIF_NORETRY=1   # failing obligations are expected here: no second-chance retries
SAFETY_ONLY="BadIndex BadNilDeref BadNilMapWrite BadDivZero"
fail=0
for prop in ST C18; do
  out=$(./bin/gverif check -prop $prop -repo /verif/selftest/mod -verif /verif/selftest/v -v 2>&1)
  failing=$(echo "$out" | grep "^VIOLATION" | sed 's/.*obligation=tkestack.io\/galaxy\/st\.\([A-Za-z0-9]*\)#.*/\1/' | sort -u)
  fns=$(grep -o "^func [A-Za-z0-9]*" /verif/selftest/mod/st/st.go | awk '{print $2}')
  for f in $fns; do
    case $f in
      Ok*) if echo "$failing" | grep -qx "$f"; then echo "SELFTEST FALSE-ALARM ($prop): $f has a failing obligation"; fail=1; fi ;;
      Bad*)
        safety=0; for s in $SAFETY_ONLY; do [ "$s" = "$f" ] && safety=1; done
        if [ $prop = ST ] && [ $safety = 0 ] && ! echo "$failing" | grep -qx "$f"; then echo "SELFTEST SOUNDNESS-HOLE (ST): $f verifies although its contract does not hold"; fail=1; fi
        if [ $prop = C18 ] && [ $safety = 1 ] && ! echo "$failing" | grep -qx "$f"; then echo "SELFTEST SOUNDNESS-HOLE (C18): $f has no failing safety obligation"; fail=1; fi ;;
    esac
  done
  echo "$out" | grep "^property=" 
done
rm -rf /verif/selftest/v/replays /verif/selftest/v/evidence
[ $fail = 0 ] && echo "SELFTEST ok"
exit $fail
