#!/bin/bash
# run_baseline.sh: runs the repository's own test suite (the pinned baseline command) on /repo's
# working tree and reports the baseline tests that do not pass. Used before every "fix:" commit.
export GOFLAGS=-mod=mod GOPROXY=off GOSUMDB=off GOTOOLCHAIN=local
T=$(mktemp /var/tmp/gotest.XXXXXX.json)
(cd /repo && go test -mod=mod -json -vet=off -count=1 -timeout 25m ./... 2>/dev/null) > $T
python3 - $T <<'PY'
import json,sys
b=json.load(open('/root/.vp/BASELINE.json'))
want=set(b['stable_pass'])
got={}
for l in open(sys.argv[1]):
    try:e=json.loads(l)
    except: continue
    if e.get('Test') and e.get('Action') in ('pass','fail','skip'):
        got[e['Package']+'::'+e['Test']]=e['Action']
miss=[t for t in want if got.get(t)!='pass']
print(len(want),'baseline tests; not passing:',miss)
sys.exit(1 if miss else 0)
PY
rc=$?; rm -f $T; exit $rc
