#!/usr/bin/env python3
"""Prints the seeded-changes table of DESIGN.md section 8.6 from seeded/*/detection.txt."""
import os, re, json
ONE = {
 "C01-1": "resync frees an IP of a live pod",
 "C01-2": "create no longer refuses an existing object",
 "C02-1": "AllocateInSubnetWithKey matches the old key by prefix (takes a sibling's IP)",
 "C02-2": "allocateDuringFilter allocates a fresh IP although a reserved one exists (branch order)",
 "C03-1": "allocateIP drops the uid guard",
 "C03-2": "pool annotation no longer forces policy never",
 "C04-1": "resync ignores the stored uid",
 "C04-2": "podRunning trusts the cache over the API server",
 "C05-1": "rollback of a multi-IP allocation skips an object",
 "C05-2": "attribute not persisted",
 "C06-1": "pool table construction mixes node subnets",
 "C06-2": "getSubnet discards the intersection with held IPs (rebased after d0db67a)",
 "C08-1": "one range's IP may repeat",
 "C08-2": "getSubnet keeps the unrestricted set when the intersection is empty (rebased)",
 "C09-1": "reload merges into the old allocation table instead of replacing it",
 "C09-2": "create overwrites an existing (reserved) object on AlreadyExists",
 "C10-1": "unbind only logs a failed unassign and goes on to free the IP",
 "C10-2": "allocateIP's uid guard fires only while the old incarnation is reported running",
 "C11-1": "resolveDeploymentName strips the hash with TrimRight (cutset)",
 "C11-2": "page end off by one",
 "C18-1": "IPNet.UnmarshalJSON loses its length guard (slice out of range)",
 "C18-2": "ParseSize lets size 0 through (division by zero)",
 "C18-3": "walkIPRanges back to a uint32 counter (never ends)",
 "C20-1": "fipCheck compares in uint32 again",
 "C20-2": "ensureIPAMConf records the new text before configuring",
 "C20-3": "fipCheck rejects a range only if BOTH ends are outside the subnet (De Morgan slip)",
 "C20-4": "ensureIPAMConf records the new text before decoding and configuring",
 "C19-1": "ReleaseIPs reads the allocation table before taking the lock",
 "C19-2": "AllocateSpecificIP writes the tables under the read lock",
 "C13-1": "allocateIP re-queries only the new range lists and appends them after the reused ones (order)",
 "C13-2": "toFloatingIPInfo takes the mask of the node subnet instead of the pool",
 "C17-1": "shouldCleanup treats every docker inspect error as container gone",
 "C17-2": "cleanupGCDirs skips the decision for an id it has already visited in another dir",
 "C12-1": "rollback after a failed ADD calls CmdDel(idx-1): the failed plugin gets no DEL, and for idx 0 the -1 sentinel deletes networks never added",
 "C12-2": "consumeNetworkInfo wraps its errors (%w): a repeated DEL is no longer recognised and fails",
 "C12-3": "a pod requesting an ENI IP gets only the ENI network even with a networks annotation",
 "C12-4": "CmdDel collects failed entries in the backing array of the list it is walking",
}
rows = []
for s in sorted(os.listdir('/verif/seeded')):
    d = '/verif/seeded/' + s
    det = open(d + '/detection.txt').read() if os.path.exists(d + '/detection.txt') else ''
    checks = re.findall(r'detected by check (C\d+)', det)
    obs = re.findall(r'obligation=tkestack\.io/galaxy/pkg/(\S+)', det)
    first = obs[0] if obs else ''
    first = re.sub(r'^(ipam/|utils/)', '', first)
    replayed = 'no-failing-input-found' not in (det.split('\n')[1] if len(det.split('\n')) > 1 else '') and bool(obs)
    one = ONE.get(s)
    if one is None:
        try:
            one = json.load(open(d + '/meta.json'))['made_by'][:90]
        except Exception:
            one = ''
    if checks:
        rows.append("| %s | %s | %s `%s`%s |" % (s, one, '/'.join(dict.fromkeys(checks)), first, ' (replayed)' if replayed else ''))
    else:
        rows.append("| %s | %s | **not reported** |" % (s, one))
print("| seed | change (one line) | reported by (first failing obligation) |\n|---|---|---|")
print('\n'.join(rows))
