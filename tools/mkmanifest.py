#!/usr/bin/env python3
"""Generates /verif/MANIFEST.json from the claims table below (kept in one place so that the
manifest, props.json and DESIGN.md stay consistent)."""
import json, subprocess

TECH = "contract-based deductive verification: own VC generator over go/ssa of /repo, contracts in guarded comment files, obligations discharged by z3 5.1 / z3 4.8 / cvc5"
COMMON_NOTE = ("Trusted base: the VC generator itself (/verif/engine), the assumed contracts of external functions listed per run in "
               "evidence.coverage.trusted_base, 64-bit int model, strings uninterpreted. Interleavings are not explored: contracts are "
               "sequential; where a property quantifies over schedules only the per-call mechanism and lock discipline are proved.")

CLAIMS = {
 "C20": ("proof", "Discharged obligations on the real code of pkg/utils/nets and pkg/ipam/floatingip: IPToInt/IntToIP are inverse (byte/shift arithmetic exact, "
         "real encoding/binary bodies inlined), IPRange.Size/Contains, SparseSubnet.Size = number of addresses for sorted ranges not spanning 2^32 (loop invariant over a "
         "recursive count), fipCheck accepts only ranges inside the subnet, sorted, disjoint and unmergeable over the integers, FloatingIPPool.Contains = membership, "
         "walkIPRanges terminates (measure over the integers), pool decoding rejects a null nodeSubnets entry, ConfigurePool rejects a null pool, ensureIPAMConf records exactly the applied configuration text. Genuine defects found by these obligations were repaired (fix: commits, known_findings.txt).",
         "JSON layer (encoding/json) and net.ParseIP/IPNet.Contains are assumed (uninterpreted with stated facts; a decoded container may hold nil elements); pool-level round trip through JSON is not claimed. ensureIPAMConf: a rejected text is never recorded as applied, an applied one always is (relative to the proved frame of ConfigurePool)."),
 "C11": ("proof", "Paging arithmetic of pkg/utils/page proved for all page/size/len in the documented ranges (start/end formulae, clamping of ParsePage/ParseSize); crdIpam.ReleaseIPs and the plugin's releaseIP release exactly the (ip,key) pairs that match. "
         "Key construction: the deployment name of a ReplicaSet-owned pod is the ReplicaSet name before its LAST dash (resolveDeploymentName); GetAppTypePrefix/GetAppType are proved against spec functions and a lemma shows that the app type the list API shows for any storable prefix (including NULL_ of owner-less pods) rebuilds that prefix (defect repaired, fix: 9ec65a6). Injectivity of the whole key and ParseKey(FormatKey) are not under contract.", "strconv.Atoi assumed deterministic; sort.Sort not modelled; strings.ToLower/LastIndex/concatenation are uninterpreted with the stated axioms (idempotence of ToLower, prefix of a concatenation, lower-case literals)."),
 "C01": ("proof", "Every table-writing method of crdIpam preserves the table invariant (entries non-nil, filed under their own IP string, pool and its node-subnet set non-nil, allocated/unallocated disjoint, free entries blank) "
         "and has a whole-view postcondition: owner changes only for an IP that was free or whose key equals the key argument; failure leaves tables unchanged. "
         "Methods: Release, ReleaseIPs, UpdateAttr, AllocateSpecificIP, AllocateInSubnet, AllocateInSubnetWithKey, AllocateInSubnetsAndIPRange, ReserveIP, handleFIPAssign/Unassign, ConfigurePool (table construction); "
         "plugin layer: allocateIP (bind), unbind, unbindDpPod/unbindNoneDpPod, releaseIP, one resync pass touch only entries of the pod's own key; allocateIP never frees or re-keys an existing object.",
         "Store wrappers are verified against the ASSUMED behaviour of the generated client (create fails if the object exists). Interleavings at API-call granularity, histories and restarts are not decided by contracts."),
 "C02": ("proof", "AllocateInSubnetWithKey re-keys exactly one entry keyed with the old key whose pool lists the subnet, the most recently updated one, and changes nothing else; ReserveIP re-keys exactly the entries of the old key; First/ByKeyAndIPRanges report only (and, without ranges, all) entries of the key; allocateDuringFilter: when a reserved IP of the pool/deployment exists it is re-keyed and no new object is created. Proved for all table states.",
         "Plugin-level stickiness (bind choosing the reserved IP) not under contract; histories not decided."),
 "C04": ("proof", "crdIpam.Release/ReleaseIPs/UpdateAttr act only on (ip,key) matches and leave every other entry unchanged; plugin-level Release (API path), unbind (event path) and one resync pass: if the API server would report the pod alive with the stored uid, nothing in the store or at the provider changes; an event of another incarnation (uid) of the pod name leaves the live pod's IP alone (defect repaired, fix: 1c2c469); "
         "podRunning reports running for every pod the API server reports alive; entries of other keys are never touched; allocateIP (bind) changes the stored uid of an existing IP only if it was empty (uid guard) and only under the pod's own key.",
         "syncIP and ConfigurePool-vs-live-pod not under contract. API-server truth is ghost state (PodExists/PodUIDOf/PodFinished) with assumed lister/client contracts. Interleavings not decided."),
 "C03": ("proof", "parseReleasePolicy proved against the documented decision table; podRunning/runningAndUidMatch: 'not running' is concluded only from not-found, uid mismatch or a finished phase and any other error counts as running; reserveIP never deletes an object, releaseIP frees only entries of the given key; unbindDpPod/unbindNoneDpPod: policy never keeps the IP of deployment and statefulset pods; allocateIP's uid guard (see C04).",
         "histories not decided; the guard is proved as an effect on the stored uid, not as the error message returned."),
 "C10": ("proof", "Plugin-level Release, unbind and the resync pass: whenever they free an IP whose stored node is non-empty and a cloud provider is configured, the provider has acknowledged the unassign of that IP before (ghost ProvNode), and only that IP is unassigned (unbind: every IP of the key that is freed, re-keyed or loses its node has been unassigned first); allocateIP assigns IPs only to the node being bound; cloudProviderAssignIP/UnAssignIP report success only for an acknowledged reply.",
         "Cloud provider behaviour assumed (pkg/ipam/cloudprovider/zz_contracts_verif.go). 'Not assigned to a second node while still assigned to another' across calls is a history property: only the per-call ordering is proved."),
 "C05": ("proof", "After every contracted crdIpam operation, on success and on failure, memory and the ghost Store agree on owner, policy, node and uid of every allocated IP and no free IP has an object (synced), relative to the store wrappers with nondeterministic failure (fault budget); multi-IP allocation with at most one failing API call.",
         "Crash points are not enumerated; ConfigurePool's reload-from-store part is only partially under contract."),
 "C06": ("proof", "Bind side: AllocateInSubnet hands out only an IP that was free and whose pool lists the node subnet, and returns ErrNoEnoughIP only if no free IP's pool lists it; toFloatingIPInfo copies mask, gateway, VLAN and node subnets of the entry's pool. "
         "Filter side: NodeSubnetsByIPRanges offers only subnets that can serve EVERY requested range list from a free IP (defect repaired, fix: c107243); getAvailableSubnet; getSubnet: every offered subnet reaches, for each requested range list in which the pod already holds an IP, an IP it holds there (defect repaired, fix: d0db67a). Bind: every entry of the annotation allocateIP returns names an IP allocated under the pod's key and carries the mask, gateway and VLAN of that IP's pool.",
         "Filter(): the per-node loop (node subnet lookup) and the agreement filter->bind across two calls are not under contract; completeness ('exactly those') is proved only inside ByKeyAndIPRanges/AllocateInSubnet, not for getSubnet. FormatKey/getPodCniArgs/getDpReplicas are assumed (named uninterpreted results)."),
 "C08": ("proof", "AllocateInSubnetsAndIPRange proved against the property statement for every list of well-formed requested ranges and every table state: on success exactly one IP per range, the i-th inside the i-th range, free and routable from the node subnet before the call, pairwise distinct, in request order, published under the key, every other entry untouched; on any failure the tables are unchanged and, with at most one failing API call, the store is unchanged (rollback loop invariant). ByKeyAndIPRanges: one slot per range list, the reported IP lies in its own range list, and a slot is nil only if the key holds nothing in that list; getSubnet restricts the offer by every held IP; allocateIP (bind) reports exactly one IP per requested range list, the i-th inside the i-th list, in request order (no nil entry), also when part of the lists was already held.",
         "Client (API server) behaviour assumed as in pkg/ipam/client/.../zz_contracts_verif.go; net.IP.String modelled by uninterpreted functions with the stated axioms; the pod's requested ranges are named by uninterpreted math functions tied to getPodCniArgs' result (assumed). 'None of the k IPs stays allocated on failure' is proved for the IPAM call, not across allocateIP's later provider failures (by design of the code the IPs stay)."),
 "C09": ("proof", "Allocation contracts hand out only entries of the unallocated table; handleFIPAssign moves only a free IP to allocated and refuses an allocated one; ConfigurePool builds disjoint tables whose free entries are blank.", "watch timing not decided."),
 "C19": ("proof", "Lock discipline of declared guarded fields: for every function of pkg/ipam/floatingip/ipam_crd.go, every read of crdIpam.allocatedFIPs / unallocatedFIPs / FloatingIPs (the field and the map/slice contents) happens with cacheLock held in some mode and every write with the write lock held, or on an object allocated by the very call (constructor); the same for FloatingIPPlugin.nodeSubnet under nodeSubnetLock (floatingip_plugin.go, with the cache fill in ipam.go inlined into its two callers) and crdKey.keyToGVR under its mutex (crdkey.go). Lock obligations and the loop invariants about the lock state, all discharged. A race of ConfigurePool's deferred log was found (race detector replay) and repaired (fix: 28f1946).",
         "This is NOT race freedom of the process: only the five declared guarded fields are covered; the other anchored files (crdcache, cniutil, galaxy server, portmapping, policy) are not swept; FloatingIPPlugin.Run (goroutine start) is outside the subset and listed as undecided; publication of objects, goroutine creation and the happens-before of channels are not modelled; helper functions called under the lock carry the lock as a stated precondition."),
 "C12": ("proof", "Request path of pkg/api/cniutil on the real code, against a ghost trace of plugin invocations (CniN/CniCmd/CniIf, recorded at the exec boundary invoke.ExecPlugin*): a successful CmdAdd has invoked exactly the plugins of the given networks with ADD, in the given order, the i-th on the interface of the i-th entry; CmdAdd never issues an ADD after a DEL (rollback only deletes); CmdAdd leaves every configuration map that existed before the request unchanged (frame over all map[string]interface{} objects: isolation of requests from each other - a genuine defect here, prevResult stored in the shared static configuration, was found and repaired, fix: 5fda140); CmdDel for a container without saved state invokes nothing and succeeds (repeated DEL); a successful CmdDel has invoked the saved networks with DEL in reverse file order and consumed the state; CmdDel only ever issues DEL and leaves the earlier trace alone; DelegateAdd/DelegateDel invoke at most one plugin, with the command and interface they were given. All inputs: any number of networks, any plugin failure pattern (plugin results are unconstrained).",
         "The state file (saveNetworkInfo/consumeNetworkInfo: file I/O and the JSON round trip of []*NetworkInfo) and the plugin exec are ASSUMED boundaries (ghost SavedIDs/SavedLen/SavedIf). NOT under contract: which DELs are retried after a partial DEL failure (only that state is re-saved by the real code is executed, not specified), the exact DEL sequence of a rollback (plugins may fail before exec), network selection and interface naming in pkg/galaxy (resolveNetworks), concurrency of requests."),
 "C17": ("proof", "Safety half of the GC property: (*flannelGC).shouldCleanup answers true only if the runtime reports the container gone (docker: not-found error; containerd: gRPC NotFound) or exited/dead (docker) or its sandbox not ready (containerd), and never on any other inspect error; removeLeakyStateFile/removeLeakyIPFile remove exactly the named file; one cleanupGCDirs pass removes a state file / cleans a port mapping only for an entry name that shouldCleanup approved in that pass (ghost sets Removed and PortsCleaned against the runtime oracle). All inputs: any directory listing, any mix of container states, any inspect error.",
         "The runtime is an ASSUMED oracle (pkg/api/docker/zz_contracts_verif.go: an answer reflects ghost truth, not-found is reported by the dedicated error); os.Remove/ReadDir/filepath are assumed (names are strings, Base(Join(d,n)) == n). cleanupIP (owner read from the file content), cleanupVeth (netlink) and the liveness half ('everything is removed within a bounded number of rounds') are NOT claimed; the containerd branch's pod lookup is proved only up to 'sandbox not ready'."),
 "C18": ("proof", "Zero-annotation safety sweep (plus surface invariants as typeinv/requires): for every function of the listed files (pkg/utils/nets/ip.go, pkg/ipam/floatingip/{floatingip.go,ipam_crd.go}, pkg/utils/page/page.go, pkg/ipam/schedulerplugin/util/utils.go, pkg/api/k8s/k8s.go) that is inside the supported subset, every generated no-panic obligation is discharged for all inputs satisfying the stated surface invariant: nil dereference, index/slice bounds, nil-map write, failed type assertion, division by zero, explicit panic, signed 64-bit overflow, callee preconditions, and termination of loops that carry a measure. "
         "A decoder crash on a null nodeSubnets entry was found and repaired (fix: fed78c1).",
         "All 94 functions of these files are inside the subset at this commit (a function that leaves it is listed as UNDECIDED in the run output and under coverage.undecided_functions). Channel sends are treated as no-ops (blocking is not modelled); encoding/json decoding into a local yields an arbitrary well-formed value (containers may hold nil). C18 relies on range postconditions proved by C11/C20 clauses (tagged for both). Other surfaces named by the property (HTTP handlers, CNI request parsing, policy sync) are not swept. Library callees are assumed not to panic on arguments satisfying their stated requires."),
}

def main():
    checks = []
    for pid in sorted(CLAIMS):
        lvl, text, note = CLAIMS[pid]
        checks.append({
            "property_id": pid,
            "quick_cmd": f"/verif/bin/gverif check -prop {pid} -tier quick",
            "thorough_cmd": f"/verif/bin/gverif check -prop {pid} -tier thorough",
            "evidence_file": f"/verif/evidence/{pid}.json",
            "replay_cmd_template": "cat {path}",
            "engine": "gverif",
            "level_claimed": {"category": lvl, "text": text, "design_ref": "DESIGN.md section 4 (" + pid + ") and section 8"},
            "level_note": note + " " + COMMON_NOTE,
            "technique": TECH,
        })
    props = [json.loads(l)["id"] for l in open("/verif/properties.jsonl")]
    NA = {
      "C16": "packet-level semantics of the emitted iptables/ipset program: no contract on a Go function expresses which traffic the kernel admits (DESIGN.md section 5)",
    }
    na = []
    for p in props:
        if p in CLAIMS:
            continue
        na.append({"property_id": p, "reason": NA.get(p, "not claimed yet: contracts for the functions this property depends on are not discharged at this commit (see DESIGN.md section 8 for status)")})
    m = {
      "version": 1,
      "setup_cmd": "cd /verif/engine && GOFLAGS=-mod=mod GOPROXY=off GOSUMDB=off GOTOOLCHAIN=local go build -o /verif/bin/gverif .",
      "hooks": {
        "guard": "verif",
        "enable": "contract files zz_contracts*_verif.go (//go:build verif, package clause and comments only) are read by /verif/bin/gverif; go build -tags verif ./... compiles them as empty files",
        "baseline_off_cmd": "cd /repo && GOFLAGS=-mod=mod GOPROXY=off GOSUMDB=off go test -vet=off -count=1 -timeout 25m ./...",
        "source_commits": subprocess.run(["git","-C","/repo","log","--format=%h %s","289a51e..HEAD"],capture_output=True,text=True).stdout.strip().split("\n"),
        "add_only": True
      },
      "engines": [{"name": "gverif", "path": "/verif/engine", "serves_properties": sorted(CLAIMS), "kind_free_text": TECH}],
      "checks": checks,
      "notes": "See DESIGN.md. Known findings: /verif/known_findings.txt. Seeded changes: /verif/seeded/.",
      "not_applicable": na,
    }
    json.dump(m, open("/verif/MANIFEST.json", "w"), indent=1)
    print("checks:", len(checks), "not_applicable:", len(na))

main()
