#!/bin/bash
# confirm_seed.sh <worktree> <i> <demo package dir (relative)>
# Confirms a seeded change: compiles, existing tests of the IPAM packages pass with it,
# the demonstration fails with it and passes without it.
export GOFLAGS=-mod=mod GOPROXY=off GOSUMDB=off GOTOOLCHAIN=local
W=$1; I=$2; D=$3
SKIP='^(TestGetGroupVersionResource|TestResyncCRDPod|TestReleasePolicyForScalableCrd)$'
cd $W || exit 2
git checkout -q -- . ; rm -f $D/zz_seed_demo_test.go
git apply _seed/$I/patch.diff || { echo "APPLY-FAILED"; exit 2; }
go build ./pkg/... ./cni/... ./cmd/... >/dev/null 2>&1 && echo "BUILD ok" || echo "BUILD FAILED"
PK=$(git diff --name-only | xargs -n1 dirname | sort -u | sed 's|^|./|' | tr '\n' ' ')
echo "changed packages: $PK"
go test -vet=off -count=1 -skip "$SKIP" $PK ./pkg/ipam/floatingip/ ./pkg/ipam/schedulerplugin/ ./pkg/ipam/api/ 2>&1 | grep -v "^---\|^===\|^    " | tail -8
cp _seed/$I/zz_seed_demo_test.go $D/
echo "--- demo WITH change (expect FAIL)"
go test -vet=off -count=1 -run 'Seed|seed|ZZ' ./$D/ 2>&1 | tail -4
git checkout -q -- .
echo "--- demo WITHOUT change (expect ok)"
go test -vet=off -count=1 -run 'Seed|seed|ZZ' ./$D/ 2>&1 | tail -3
rm -f $D/zz_seed_demo_test.go
git status --short | grep -v _seed
