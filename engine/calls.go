package main

// Calls: builtins, contracts, inlining, havoc; guarded-field checks; function verification.

import (
	"go/token"
	"fmt"
	"go/types"
	"sort"
	"strings"

	"golang.org/x/tools/go/ssa"
)

const galaxyPrefix = "tkestack.io/galaxy"

func (x *Exec) contractFor(fn *ssa.Function) *Contract {
	if fn == nil {
		return nil
	}
	if fn.Pkg != nil {
		if c, ok := x.db.Contracts[fn.Pkg.Pkg.Path()+"::"+fn.RelString(fn.Pkg.Pkg)]; ok {
			return c
		}
	}
	if c, ok := x.db.Contracts["::"+fn.String()]; ok {
		return c
	}
	// instantiated / wrapper functions: try the origin
	if o := fn.Origin(); o != nil && o != fn {
		return x.contractFor(o)
	}
	return nil
}

func (x *Exec) contractForMethod(c *ssa.CallCommon) *Contract {
	rt := c.Value.Type()
	name := c.Method.Name()
	if nt, ok := rt.(*types.Named); ok && nt.Obj().Pkg() != nil {
		if con, ok := x.db.Contracts[nt.Obj().Pkg().Path()+"::("+nt.Obj().Name()+")."+name]; ok {
			return con
		}
		if con, ok := x.db.Contracts["::("+nt.Obj().Pkg().Path()+"."+nt.Obj().Name()+")."+name]; ok {
			return con
		}
	}
	if con, ok := x.db.Contracts["::("+types.TypeString(rt, nil)+")."+name]; ok {
		return con
	}
	return nil
}

func (x *Exec) ruleFor(fn *ssa.Function) *PkgRule {
	return x.ruleForName(fn.String())
}

func (x *Exec) ruleForName(name string) *PkgRule {
	var best *PkgRule
	for i := range x.db.PkgRules {
		r := &x.db.PkgRules[i]
		if strings.HasPrefix(name, r.Prefix) || strings.HasPrefix(strings.TrimLeft(name, "(*"), r.Prefix) {
			if best == nil || len(r.Prefix) > len(best.Prefix) {
				best = r
			}
		}
	}
	return best
}

func (x *Exec) inlinable(fn *ssa.Function) bool {
	if v, ok := x.L.inlinableCache[fn]; ok {
		return v
	}
	ok := true
	if fn.Recover != nil && false {
		ok = false
	}
	for _, b := range fn.Blocks {
		for _, ins := range b.Instrs {
			switch ins.(type) {
			case *ssa.Go, *ssa.Select, *ssa.Send:
				ok = false
			}
		}
	}
	x.L.inlinableCache[fn] = ok
	return ok
}

func isGalaxy(fn *ssa.Function) bool {
	for f := fn; f != nil; f = f.Parent() {
		if f.Pkg != nil {
			return strings.HasPrefix(f.Pkg.Pkg.Path(), galaxyPrefix)
		}
	}
	return false
}

func (x *Exec) doCall(st *State, c *ssa.CallCommon, cont func(*State, []Val), ins ssa.Instruction) {
	var args []Val
	for _, a := range c.Args {
		args = append(args, x.operand(st, a))
	}
	var fnv Val
	if _, isB := c.Value.(*ssa.Builtin); !isB {
		fnv = x.operand(st, c.Value)
	}
	x.doCallVals(st, c, fnv, args, cont, ins)
}

func (x *Exec) doCallVals(st *State, c *ssa.CallCommon, fnv Val, args []Val, cont func(*State, []Val), ins ssa.Instruction) {
	if b, ok := c.Value.(*ssa.Builtin); ok {
		res := x.builtin(st, b, args, c, ins)
		cont(st, res)
		return
	}
	sig := c.Signature()
	if c.IsInvoke() {
		x.oblige(st, "safe:nil", x.ordinalFor(ins, "safe:nil", "invoke."+c.Method.Name()), not(eq(fnv.T, "iface_nil")), safetyTags, "method call on nil interface")
		con := x.contractForMethod(c)
		name := "(" + types.TypeString(c.Value.Type(), nil) + ")." + c.Method.Name()
		if con != nil {
			names := []string{"self"}
			ps := sig.Params()
			for i := 0; i < ps.Len(); i++ {
				n := ps.At(i).Name()
				if n == "" || n == "_" {
					n = fmt.Sprintf("arg%d", i)
				}
				names = append(names, n)
			}
			x.applyContract(st, con, name, names, append([]Val{fnv}, args...), sig, cont, ins)
			return
		}
		// package rule by the interface's package (e.g. prometheus.Observer)
		full := "(" + types.TypeString(c.Value.Type(), func(p *types.Package) string { return p.Path() }) + ")." + c.Method.Name()
		if r := x.ruleForName(full); r != nil && r.NoEffect {
			x.trusted["rule "+r.Prefix+" (no effect on modelled state)"]++
			cont(st, x.freshResults(st, sig))
			return
		}
		x.unknownCall(st, name, sig, args, cont)
		return
	}
	var callee *ssa.Function
	var bindings []Val
	if fnv.Clo != nil {
		callee, bindings = fnv.Clo.Fn, fnv.Clo.Bindings
	} else if sc := c.StaticCallee(); sc != nil {
		callee = sc
	}
	if callee == nil {
		// a call through a func-typed struct field (`gc.cleanPortFunc(x)`): a contract may be given
		// for the field, keyed like a method of the struct: `func (*T).field trusted ...`
		if con, name, recv := x.fieldFuncContract(st, c); con != nil {
			names := []string{"self"}
			ps := sig.Params()
			for i := 0; i < ps.Len(); i++ {
				n := ps.At(i).Name()
				if n == "" || n == "_" {
					n = fmt.Sprintf("arg%d", i)
				}
				names = append(names, n)
			}
			x.applyContract(st, con, name, names, append([]Val{recv}, args...), sig, cont, ins)
			return
		}
		// a value of a named func type of a package declared `noeffect` (context.CancelFunc)
		if nt, ok := c.Value.Type().(*types.Named); ok && nt.Obj().Pkg() != nil {
			full := nt.Obj().Pkg().Path() + "." + nt.Obj().Name()
			if r := x.ruleForName(full); r != nil && r.NoEffect {
				x.trusted["rule "+r.Prefix+" (values of func type "+full+" have no effect on modelled state)"]++
				cont(st, x.freshResults(st, sig))
				return
			}
		}
		x.unknownCall(st, "dynamic call", sig, args, cont)
		return
	}
	x.callFunction(st, callee, bindings, args, sig, cont, ins)
}

// fieldFuncContract: the callee value is `*(&recv.field)` with recv a pointer to a named struct of a
// galaxy package that has a contract `(*T).field`.
func (x *Exec) fieldFuncContract(st *State, c *ssa.CallCommon) (*Contract, string, Val) {
	ld, ok := c.Value.(*ssa.UnOp)
	if !ok || ld.Op != token.MUL {
		return nil, "", Val{}
	}
	fa, ok := ld.X.(*ssa.FieldAddr)
	if !ok {
		return nil, "", Val{}
	}
	pt, ok := fa.X.Type().Underlying().(*types.Pointer)
	if !ok {
		return nil, "", Val{}
	}
	nt, ok := pt.Elem().(*types.Named)
	if !ok || nt.Obj().Pkg() == nil {
		return nil, "", Val{}
	}
	stt, ok := nt.Underlying().(*types.Struct)
	if !ok {
		return nil, "", Val{}
	}
	key := nt.Obj().Pkg().Path() + "::(*" + nt.Obj().Name() + ")." + stt.Field(fa.Field).Name()
	con := x.db.Contracts[key]
	if con == nil {
		return nil, "", Val{}
	}
	return con, "(*" + nt.Obj().Name() + ")." + stt.Field(fa.Field).Name() + " [func field]", x.operand(st, fa.X)
}

// libraryModel: built-in effect models for a few reflection-based library functions whose
// contracts cannot be written in the contract language (they act on the value inside an
// interface). Listed in the evidence as assumed.
func (x *Exec) libraryModel(st *State, name string, args []Val, sig *types.Signature) ([]Val, bool) {
	switch name {
	case "encoding/json.Unmarshal":
		// writes only through the pointer passed as v (and allocates); returns an arbitrary error
		if len(args) == 2 && args[1].Inner != nil && args[1].Inner.Loc != nil && args[1].Inner.Loc.Kind == LRef {
			l := args[1].Inner.Loc
			if stt, ok := l.Elem.Underlying().(*types.Struct); ok {
				x.trusted["model of encoding/json.Unmarshal: writes only the fields of the struct its second argument points to"]++
				oa := x.heap(st, "$alloc", "Int")
				na := x.havocHeap(st, "$alloc", "Int")
				st.assume(fmt.Sprintf("(>= %s %s)", na, oa))
				for i := 0; i < stt.NumFields(); i++ {
					hn, hs := x.fieldHeap(l.Elem, i)
					fv := x.freshConst(st, "json", x.ctx.sortOf(stt.Field(i).Type()))
					x.assumeWF(st, fv, stt.Field(i).Type())
					x.setHeap(st, hn, hs, sto(x.heap(st, hn, hs), l.Ref, fv))
				}
				return x.freshResults(st, sig), true
			}
		}
		if len(args) == 2 && args[1].Inner != nil && args[1].Inner.Loc != nil && args[1].Inner.Loc.Kind == LCell {
			// target is a local variable (slice, map, scalar): it receives an arbitrary well-formed
			// value of its type; decoded containers may hold nil elements ("[null]")
			l := args[1].Inner.Loc
			if _, isStruct := l.Elem.Underlying().(*types.Struct); !isStruct {
				x.trusted["model of encoding/json.Unmarshal: writes only the variable its second argument points to (arbitrary well-formed value)"]++
				oa := x.heap(st, "$alloc", "Int")
				na := x.havocHeap(st, "$alloc", "Int")
				st.assume(fmt.Sprintf("(>= %s %s)", na, oa))
				fv := x.freshConst(st, "json", x.ctx.sortOf(l.Elem))
				x.assumeWF(st, fv, l.Elem)
				if mt, isMap := l.Elem.Underlying().(*types.Map); isMap {
					x.trusted["model of encoding/json.Unmarshal: decoding into a nil map variable leaves it nil or makes a new map and changes no existing map"]++
					// decoding into a nil map variable leaves it nil or makes a new map; decoding into
					// a non-nil map stores into that map (any map of the type may then have changed)
					if prev, ok := st.cells[l.Cell]; ok && prev.T != "" {
						dn, ds, vn, vs := x.mapHeaps(mt)
						od, ov := x.heap(st, dn, ds), x.heap(st, vn, vs)
						nd, nv := x.havocHeap(st, dn, ds), x.havocHeap(st, vn, vs)
						wasNil := eq(prev.T, "0")
						st.assume(fmt.Sprintf("(=> %s (or (= %s 0) (>= %s %s)))", wasNil, fv, fv, oa))
						st.assume(fmt.Sprintf("(=> %s (forall ((r Int)) (! (=> (< r %s) (= (select %s r) (select %s r))) :pattern ((select %s r)))))", wasNil, oa, nd, od, nd))
						st.assume(fmt.Sprintf("(=> %s (forall ((r Int)) (! (=> (< r %s) (= (select %s r) (select %s r))) :pattern ((select %s r)))))", wasNil, oa, nv, ov, nv))
					}
				}
				st.cells[l.Cell] = x.valFromTerm(fv, l.Elem)
				return x.freshResults(st, sig), true
			}
		}
	case "encoding/json.Marshal":
		// the text produced for a struct value of a named type T is json_T(value) (a spec function
		// declared by the contracts: `uninterp json_T(a T) string`); nothing else is assumed about it
		if len(args) == 1 && args[0].Inner != nil && args[0].Inner.Ty != nil {
			if nt, ok := args[0].Inner.Ty.(*types.Named); ok && isStruct(nt) {
				fn := "u_json_" + nt.Obj().Name()
				if x.ctx.hasDecl(fn) {
					x.trusted["model of encoding/json.Marshal: output text for "+nt.Obj().Name()+" is the spec function json_"+nt.Obj().Name()+" of the value"]++
					oa := x.heap(st, "$alloc", "Int")
					na := x.havocHeap(st, "$alloc", "Int")
					st.assume(fmt.Sprintf("(>= %s %s)", na, oa))
					res := x.freshResults(st, sig)
					st.assume(or(eq(res[1].T, "(mk_iface 0 0)"), fmt.Sprintf("(>= (i_val %s) %s)", res[1].T, oa))) // a new error value
					if onlyScalarFields(nt) {
						// strings, booleans and integers always encode: Marshal cannot fail for this type
						st.assume(eq(res[1].T, "(mk_iface 0 0)"))
					}
					byteT := sig.Results().At(0).Type().Underlying().(*types.Slice).Elem()
					hn, hs := x.elemHeap(byteT)
					sfn := "str_of_" + mangle(x.ctx.sortOf(byteT)) + "s"
					x.ctx.addDecl(sfn, fmt.Sprintf("(declare-fun %s ((Array Int %s) Int Int) Str)", sfn, x.ctx.sortOf(byteT)))
					st.assume(implies(eq(res[1].T, "(mk_iface 0 0)"), eq(app(sfn, sel(x.heap(st, hn, hs), "(s_arr "+res[0].T+")"), "(s_off "+res[0].T+")", "(s_len "+res[0].T+")"), app(fn, args[0].Inner.T))))
					return res, true
				}
			}
		}
	case "sort.Sort":
		// permutes the elements of the slice inside the sort.Interface value
		if len(args) == 1 && args[0].Inner != nil && args[0].Inner.Ty != nil {
			if sl, ok := args[0].Inner.Ty.Underlying().(*types.Slice); ok {
				x.trusted["model of sort.Sort: every element of the sorted slice is one of its old elements, nothing else changes"]++
				v := args[0].Inner
				hn, hs := x.elemHeap(sl.Elem())
				old := x.heap(st, hn, hs)
				es := x.ctx.sortOf(sl.Elem())
				content := x.freshConst(st, "sorted", fmt.Sprintf("(Array Int %s)", es))
				x.setHeap(st, hn, hs, sto(old, "(s_arr "+v.T+")", content))
				nw := st.heaps[hn]
				at := x.atFn(sl.Elem())
				st.assume(fmt.Sprintf("(forall ((i Int)) (! (=> (and (<= 0 i) (< i (s_len %s))) (exists ((j Int)) (and (<= 0 j) (< j (s_len %s)) (= (%s %s %s i) (%s %s %s j))))) :pattern ((%s %s %s i))))", v.T, v.T, at, nw, v.T, at, old, v.T, at, nw, v.T))
				return nil, true
			}
		}
	}
	return nil, false
}

func (x *Exec) callFunction(st *State, fn *ssa.Function, bindings, args []Val, sig *types.Signature, cont func(*State, []Val), ins ssa.Instruction) {
	name := fn.String()
	if res, ok := x.libraryModel(st, name, args, fn.Signature); ok {
		cont(st, res)
		return
	}
	con := x.contractFor(fn)
	if con != nil && !con.Inline {
		var names []string
		for _, p := range fn.Params {
			names = append(names, p.Name())
		}
		if len(fn.Params) == 0 {
			if r := fn.Signature.Recv(); r != nil {
				n := r.Name()
				if n == "" || n == "_" {
					n = "self"
				}
				names = append(names, n)
			}
			for i := 0; i < fn.Signature.Params().Len(); i++ {
				n := fn.Signature.Params().At(i).Name()
				if n == "" || n == "_" {
					n = fmt.Sprintf("arg%d", i)
				}
				names = append(names, n)
			}
		}
		// closures under contract: free variables are visible by name (current value of the variable)
		cargs := append([]Val{}, args...)
		for i, fv := range fn.FreeVars {
			if i < len(bindings) {
				b := bindings[i]
				if b.Loc != nil && b.Loc.Kind == LCell {
					b = x.load(st, b.Loc)
				}
				for len(names) < len(cargs) {
					names = append(names, fmt.Sprintf("arg%d", len(names)))
				}
				names = append(names, fv.Name())
				cargs = append(cargs, b)
			}
		}
		x.applyContract(st, con, name, names, cargs, fn.Signature, cont, ins)
		return
	}
	if con == nil {
		if r := x.ruleFor(fn); r != nil && (r.NoEffect || r.Det) && !isGalaxy(fn) {
			x.trusted["rule "+r.Prefix+" (no effect on modelled state"+map[bool]string{true: ", deterministic", false: ""}[r.Det]+")"]++
			res := x.freshResults(st, fn.Signature)
			if r.Det {
				x.detResults(st, name, args, res)
			}
			cont(st, res)
			return
		}
	}
	f := st.top()
	if len(fn.Blocks) > 0 && (isGalaxy(fn) || (con != nil && con.Inline)) && x.inlinable(fn) && f.depth < x.maxDepth && !x.onStack(st, fn) {
		if con != nil && len(con.Requires) > 0 {
			// inlined callee with a contract: its precondition is still an obligation of the caller
			env := &SpecEnv{x: x, st: st, vars: map[string]Val{}, what: "call of " + name, pkg: x.L.typesPkg(con.Pkg)}
			for i, p := range fn.Params {
				if i < len(args) {
					env.vars[p.Name()] = args[i]
				}
			}
			label := name
			if ins != nil {
				if l, ok := x.info(f.fn).callOrd[ins]; ok {
					label = l
				}
			}
			for i, r := range con.Requires {
				x.oblige(st, "pre", fmt.Sprintf("%s%s:%s", f.callPath, label, clauseLabel(r, i)), x.evalClause(env, r, "precondition of "+name), r.Tags, "precondition of "+name+": "+r.Src)
			}
		}
		x.inlineCall(st, fn, bindings, args, cont, ins)
		return
	}
	x.unknownCall(st, name, fn.Signature, args, cont)
}

func (x *Exec) onStack(st *State, fn *ssa.Function) bool {
	for _, f := range st.frames {
		if f.fn == fn {
			return true
		}
	}
	return false
}

func (x *Exec) inlineCall(st *State, fn *ssa.Function, bindings, args []Val, cont func(*State, []Val), ins ssa.Instruction) {
	caller := st.top()
	x.inlined[x.fnName(fn)]++
	x.frameSeq++
	label := ""
	if ins != nil {
		if l, ok := x.info(caller.fn).callOrd[ins]; ok {
			label = l
		}
	}
	if label == "" {
		label = fn.Name() + "#d"
	}
	nf := &Frame{fn: fn, env: map[ssa.Value]Val{}, depth: caller.depth + 1, callPath: caller.callPath + "call:" + label + "/",
		loops: map[*ssa.BasicBlock]*loopCtx{}, id: x.frameSeq, callOrd: map[string]int{}}
	for i, p := range fn.Params {
		if i < len(args) {
			nf.env[p] = args[i]
		}
	}
	for i, fv := range fn.FreeVars {
		if i < len(bindings) {
			nf.env[fv] = bindings[i]
		}
	}
	nf.cont = func(st2 *State, results []Val) { cont(st2, results) }
	st.frames = append(st.frames, nf)
	x.run(st, fn.Blocks[0], nil, 0)
}

func (x *Exec) freshResults(st *State, sig *types.Signature) []Val {
	var res []Val
	for i := 0; i < sig.Results().Len(); i++ {
		t := sig.Results().At(i).Type()
		c := x.freshConst(st, "ret", x.ctx.sortOf(t))
		x.assumeWF(st, c, t)
		res = append(res, x.valFromTerm(c, t))
	}
	return res
}

// detResults constrains results to be uninterpreted functions of the argument terms.
func (x *Exec) detResults(st *State, name string, args []Val, res []Val) {
	var sorts, terms []string
	for _, a := range args {
		if a.Ty == nil {
			return
		}
		if sl, ok := a.Ty.Underlying().(*types.Slice); ok {
			hn, hs := x.elemHeap(sl.Elem())
			sorts = append(sorts, fmt.Sprintf("(Array Int %s)", x.ctx.sortOf(sl.Elem())), "Int", "Int")
			terms = append(terms, sel(x.heap(st, hn, hs), "(s_arr "+a.T+")"), "(s_off "+a.T+")", "(s_len "+a.T+")")
			continue
		}
		if a.Clo != nil || a.It != nil || (a.Loc != nil && a.Loc.Kind != LRef) {
			return
		}
		sorts = append(sorts, x.ctx.sortOf(a.Ty))
		terms = append(terms, x.termOf(st, a))
	}
	for i, r := range res {
		fn := fmt.Sprintf("det_%s_%d", mangle(name), i)
		// arity/sort specific name to stay well-sorted for variadic callers
		fn += "_" + fmt.Sprint(len(terms))
		x.ctx.addDecl(fn, fmt.Sprintf("(declare-fun %s (%s) %s)", fn, strings.Join(sorts, " "), x.ctx.sortOf(r.Ty)))
		st.assume(eq(r.T, app(fn, terms...)))
	}
}

func (x *Exec) unknownCall(st *State, name string, sig *types.Signature, args []Val, cont func(*State, []Val)) {
	x.unverif[name]++
	ws := newWriteSet()
	for _, a := range args {
		x.noteEscapingCells(a, ws)
	}
	for c := range ws.cells {
		old := st.cells[c]
		if old.Ty == nil {
			continue
		}
		nv := x.freshConst(st, "cell", x.ctx.sortOf(old.Ty))
		x.assumeWF(st, nv, old.Ty)
		st.cells[c] = x.valFromTerm(nv, old.Ty)
	}
	x.havocAll(st)
	cont(st, x.freshResults(st, sig))
}

// ---------------------------------------------------------------------------------------------
// contracts at call sites

func resultNames(sig *types.Signature) []string {
	n := sig.Results().Len()
	names := make([]string, n)
	for i := 0; i < n; i++ {
		nm := sig.Results().At(i).Name()
		if nm == "" || nm == "_" {
			nm = fmt.Sprintf("result%d", i)
		}
		names[i] = nm
	}
	return names
}

func bindResultNames(vars map[string]Val, sig *types.Signature, res []Val) {
	n := sig.Results().Len()
	for i, nm := range resultNames(sig) {
		if i < len(res) {
			vars[nm] = res[i]
			vars[fmt.Sprintf("result%d", i)] = res[i]
		}
	}
	if n >= 1 && len(res) >= 1 {
		if _, taken := vars["result"]; !taken {
			vars["result"] = res[0]
		}
		last := sig.Results().At(n - 1).Type()
		if types.Identical(last, types.Universe.Lookup("error").Type()) {
			if _, taken := vars["err"]; !taken {
				vars["err"] = res[n-1]
			}
		}
	}
}

func (x *Exec) applyContract(st *State, con *Contract, name string, pnames []string, args []Val, sig *types.Signature, cont func(*State, []Val), ins ssa.Instruction) {
	if con.Trusted || con.NoEffect || con.Pkg == "" {
		x.trusted["contract of "+name]++
	}
	env := &SpecEnv{x: x, st: st, vars: map[string]Val{}, what: "call of " + name}
	env.pkg = x.L.typesPkg(con.Pkg)
	if env.pkg == nil && x.curPkg != nil {
		env.pkg = x.curPkg.Pkg
	}
	for i, n := range pnames {
		if i < len(args) {
			env.vars[n] = args[i]
		}
	}
	if len(args) > 0 {
		env.vars["self"] = args[0]
	}
	for _, l := range con.Lets {
		env.vars[l.Name] = env.eval(l.E)
	}
	label := name
	if ins != nil {
		if l, ok := x.info(st.top().fn).callOrd[ins]; ok {
			label = l
		}
	}
	for i, r := range con.Requires {
		tags := r.Tags
		x.oblige(st, "pre", fmt.Sprintf("%s%s:%s", st.top().callPath, label, clauseLabel(r, i)), x.evalClause(env, r, "precondition of "+name), tags, "precondition of "+name+": "+r.Src)
	}
	snap := st.heapSnapshot()
	oldVars := map[string]Val{}
	for k, v := range env.vars {
		oldVars[k] = v
	}
	// effects. The allocation counter is advanced first: typing invariants of the heap versions
	// created below must refer to the counter AFTER the callee's allocations.
	assumed := con.Trusted || con.NoEffect || con.Pkg == ""
	coverKey := ""
	if assumed && !st.dead && len(con.Ensures) > 0 {
		// vacuity guard for ASSUMED contracts: the first time a function applies the contract of a
		// given callee, "reachable before the call" and "reachable after the call" are both queried;
		// reachable-before but unreachable-after means the assumed contract contradicts itself here
		if x.callCover == nil {
			x.callCover = map[string]bool{}
		}
		k := x.curKey + "|" + name
		if !x.callCover[k] {
			x.callCover[k] = true
			coverKey = name
			x.coverPoint(st, "cover-call-pre", name)
		}
	}
	if con.NoEffect {
		// "no effect" is about existing state: the results may still be newly allocated objects
		oa := x.heap(st, "$alloc", "Int")
		na := x.havocHeap(st, "$alloc", "Int")
		st.assume(fmt.Sprintf("(>= %s %s)", na, oa))
	}
	if !con.NoEffect {
		oa := x.heap(st, "$alloc", "Int")
		na := x.havocHeap(st, "$alloc", "Int")
		st.assume(fmt.Sprintf("(>= %s %s)", na, oa))
		if !con.ModStated {
			if con.Trusted || con.Pkg == "" {
				// trusted contract without modifies: no effect on modelled heaps
			} else {
				x.havocAll(st)
			}
		} else {
			for _, item := range con.Modifies {
				x.applyModifies(st, env, con, item, oa)
			}
		}
	}
	res := x.freshResults(st, sig)
	if con.Det {
		x.detResults(st, name, args, res)
	}
	env.oldHeaps = snap
	env.oldVars = oldVars
	bindResultNames(env.vars, sig, res)
	for _, c := range con.Ensures {
		st.assume(x.evalClause(env, c, "postcondition of "+name))
	}
	if coverKey != "" {
		x.coverPoint(st, "cover-call-post", coverKey)
	}
	cont(st, res)
}

// coverPoint records a reachability query for the current point of the path.
func (x *Exec) coverPoint(st *State, kind, detail string) {
	if st.dead {
		return
	}
	ob := &Obligation{Name: x.curKey + "#" + kind + ":" + detail, Fn: x.curKey, Kind: kind, Desc: detail, Path: append([]string(nil), st.pcDesc...)}
	ob.Query = st.scriptText() + "(check-sat)\n"
	x.obls = append(x.obls, ob)
}

type modTarget struct {
	heaps map[string]string // whole heaps: name -> sort
	point []pointMod        // pointwise
	ghost []string
	fresh bool
	all   bool
}

type pointMod struct {
	heap, sort string
	at         string // ref term
}

// resolveModifies resolves a modifies item statically (whole-heap approximation; used for loop
// write sets where argument values are not available).
func (x *Exec) resolveModifies(con *Contract, callee *ssa.Function, c *ssa.CallCommon, item string) modTarget {
	tgt := modTarget{heaps: map[string]string{}}
	item = strings.TrimSpace(item)
	item = strings.TrimPrefix(item, "fresh ")
	if item == "all" {
		tgt.all = true
		return tgt
	}
	if _, ok := x.ghostTy[item]; ok {
		tgt.heaps["G$"+item] = x.ghostSort(item)
		return tgt
	}
	pkg := x.L.typesPkg(con.Pkg)
	if x.typeLevelModifies(pkg, item, &tgt) {
		return tgt
	}
	// expression-level: approximate by evaluating in a scratch state with fresh arguments
	scratch := &State{heaps: map[string]string{}, cells: map[int]Val{}, iters: map[int]string{}, declared: map[string]bool{}, sc: &script{}}
	scratch.frames = []*Frame{{fn: callee, env: map[ssa.Value]Val{}}}
	env := &SpecEnv{x: x, st: scratch, vars: map[string]Val{}, pkg: pkg, what: "modifies " + item}
	var sig *types.Signature
	var names []string
	if callee != nil {
		sig = callee.Signature
		for _, p := range callee.Params {
			names = append(names, p.Name())
			env.vars[p.Name()] = x.valFromTerm(x.freshConst(scratch, "a", x.ctx.sortOf(p.Type())), p.Type())
		}
		if len(callee.Params) > 0 {
			env.vars["self"] = env.vars[callee.Params[0].Name()]
		}
	} else if c != nil {
		sig = c.Signature()
		env.vars["self"] = x.valFromTerm(x.freshConst(scratch, "a", x.ctx.sortOf(c.Value.Type())), c.Value.Type())
		for i := 0; i < sig.Params().Len(); i++ {
			p := sig.Params().At(i)
			env.vars[p.Name()] = x.valFromTerm(x.freshConst(scratch, "a", x.ctx.sortOf(p.Type())), p.Type())
		}
	}
	_ = names
	defer func() {
		if r := recover(); r != nil {
			if _, ok := r.(specErr); ok {
				tgt.all = true
				return
			}
			panic(r)
		}
	}()
	pm := x.pointModifies(env, item)
	for _, p := range pm {
		tgt.heaps[p.heap] = p.sort
	}
	return tgt
}

func (x *Exec) ghostSort(name string) string {
	env := &SpecEnv{x: x}
	return env.sortOfS(x.ghostTy[name])
}

// typeLevelModifies handles `Struct.field`, `Struct.*`, `elemsof(T)`, `mapsof(T)`.
func (x *Exec) typeLevelModifies(pkg *types.Package, item string, tgt *modTarget) bool {
	env := &SpecEnv{x: x, pkg: pkg, what: "modifies " + item}
	ok := false
	func() {
		defer func() {
			if r := recover(); r != nil {
				if _, isSpec := r.(specErr); !isSpec {
					panic(r)
				}
			}
		}()
		if strings.HasPrefix(item, "elemsof(") && strings.HasSuffix(item, ")") {
			t := env.resolveType(item[8 : len(item)-1])
			hn, hs := x.elemHeap(t.G)
			tgt.heaps[hn] = hs
			ok = true
			return
		}
		if strings.HasPrefix(item, "mapsof(") && strings.HasSuffix(item, ")") {
			t := env.resolveType(item[7 : len(item)-1])
			dn, ds, vn, vs := x.mapHeaps(t.G.Underlying().(*types.Map))
			tgt.heaps[dn], tgt.heaps[vn] = ds, vs
			ok = true
			return
		}
		i := strings.LastIndex(item, ".")
		if i < 0 {
			return
		}
		tn, f := item[:i], item[i+1:]
		if pkg == nil {
			return
		}
		// only a type name (possibly qualified) on the left
		var t types.Type
		if o := pkg.Scope().Lookup(tn); o != nil {
			if tnm, isT := o.(*types.TypeName); isT {
				t = tnm.Type()
			}
		} else if j := strings.Index(tn, "."); j > 0 {
			t = x.L.findTypeQualified(pkg, tn[:j], tn[j+1:])
		}
		if t == nil {
			return
		}
		stt, isS := t.Underlying().(*types.Struct)
		if !isS {
			return
		}
		for k := 0; k < stt.NumFields(); k++ {
			if f == "*" || stt.Field(k).Name() == f {
				hn, hs := x.fieldHeap(t, k)
				tgt.heaps[hn] = hs
				ok = true
			}
		}
	}()
	return ok
}

// pointModifies evaluates an expression-level modifies item: `e.f`, `map(e)`, `elems(e)`, `*e`.
func (x *Exec) pointModifies(env *SpecEnv, item string) []pointMod {
	var out []pointMod
	switch {
	case strings.HasPrefix(item, "map(") && strings.HasSuffix(item, ")"):
		e, err := parseSpecExpr(item[4 : len(item)-1])
		if err != nil {
			env.fail("%v", err)
		}
		v := env.eval(e)
		mt, ok := tyUnder(v).(*types.Map)
		if !ok {
			env.fail("map() of non-map")
		}
		dn, ds, vn, vs := x.mapHeaps(mt)
		out = append(out, pointMod{dn, ds, v.T}, pointMod{vn, vs, v.T})
	case strings.HasPrefix(item, "elems(") && strings.HasSuffix(item, ")"):
		e, err := parseSpecExpr(item[6 : len(item)-1])
		if err != nil {
			env.fail("%v", err)
		}
		v := env.eval(e)
		sl, ok := tyUnder(v).(*types.Slice)
		if !ok {
			env.fail("elems() of non-slice")
		}
		hn, hs := x.elemHeap(sl.Elem())
		out = append(out, pointMod{hn, hs, "(s_arr " + v.T + ")"})
	case strings.HasPrefix(item, "*"):
		e, err := parseSpecExpr(item[1:])
		if err != nil {
			env.fail("%v", err)
		}
		v := env.eval(e)
		if v.Loc == nil || v.Loc.Kind != LRef {
			env.fail("modifies *e needs a heap pointer")
		}
		if stt, ok := v.Loc.Elem.Underlying().(*types.Struct); ok {
			for k := 0; k < stt.NumFields(); k++ {
				hn, hs := x.fieldHeap(v.Loc.Elem, k)
				out = append(out, pointMod{hn, hs, v.Loc.Ref})
			}
		} else {
			hn, hs := x.boxHeap(v.Loc.Elem)
			out = append(out, pointMod{hn, hs, v.Loc.Ref})
		}
	default:
		i := strings.LastIndex(item, ".")
		if i < 0 {
			env.fail("cannot resolve modifies item %q", item)
		}
		e, err := parseSpecExpr(item[:i])
		if err != nil {
			env.fail("%v", err)
		}
		v := env.eval(e)
		if v.Loc == nil || v.Loc.Kind != LRef {
			env.fail("modifies e.f needs a heap pointer: %s", item)
		}
		f := item[i+1:]
		path, ok := findField(v.Ty, f, 4)
		if f != "*" && !ok {
			env.fail("no field %s", f)
		}
		if f == "*" {
			stt := v.Loc.Elem.Underlying().(*types.Struct)
			for k := 0; k < stt.NumFields(); k++ {
				hn, hs := x.fieldHeap(v.Loc.Elem, k)
				out = append(out, pointMod{hn, hs, v.Loc.Ref})
			}
		} else {
			// only the outermost field of the path is a heap component
			hn, hs := x.fieldHeap(v.Loc.Elem, path[0])
			out = append(out, pointMod{hn, hs, v.Loc.Ref})
		}
	}
	return out
}

func (x *Exec) applyModifies(st *State, env *SpecEnv, con *Contract, item string, allocBefore string) {
	item = strings.TrimSpace(item)
	fresh := false
	if strings.HasPrefix(item, "fresh ") {
		fresh = true
		item = strings.TrimSpace(item[6:])
	}
	if item == "all" {
		x.havocAll(st)
		return
	}
	if _, ok := x.ghostTy[item]; ok {
		x.havocHeap(st, "G$"+item, x.ghostSort(item))
		return
	}
	tgt := modTarget{heaps: map[string]string{}}
	if x.typeLevelModifies(env.pkg, item, &tgt) {
		var names []string
		for n := range tgt.heaps {
			names = append(names, n)
		}
		sort.Strings(names)
		a := allocBefore
		for _, n := range names {
			old := x.heap(st, n, tgt.heaps[n])
			nv := x.havocHeap(st, n, tgt.heaps[n])
			if fresh {
				st.assume(fmt.Sprintf("(forall ((r Int)) (! (=> (< r %s) (= (select %s r) (select %s r))) :pattern ((select %s r))))", a, nv, old, nv))
			}
		}
		return
	}
	for _, p := range x.pointModifies(env, item) {
		old := x.heap(st, p.heap, p.sort)
		elemSort := strings.TrimSuffix(strings.TrimPrefix(p.sort, "(Array Int "), ")")
		fv := x.freshConst(st, "hv", elemSort)
		if et, ok := x.heapElem[p.heap]; ok {
			switch {
			case strings.HasPrefix(p.heap, "MV$"):
				cell := fmt.Sprintf("(select %s k)", fv)
				if wf := x.wfTerm(st, cell, et, 2); wf != "true" {
					st.assume(fmt.Sprintf("(forall ((k %s)) (! %s :pattern (%s)))", x.heapKey[p.heap], wf, cell))
				}
			case strings.HasPrefix(p.heap, "E$"):
				cell := fmt.Sprintf("(select %s i)", fv)
				if wf := x.wfTerm(st, cell, et, 2); wf != "true" {
					st.assume(fmt.Sprintf("(forall ((i Int)) (! %s :pattern (%s)))", wf, cell))
				}
			case strings.HasPrefix(p.heap, "F$"), strings.HasPrefix(p.heap, "P$"):
				x.assumeWF(st, fv, et)
			}
		}
		x.setHeap(st, p.heap, p.sort, sto(old, p.at, fv))
	}
}

// ---------------------------------------------------------------------------------------------
// builtins

func (x *Exec) builtin(st *State, b *ssa.Builtin, args []Val, c *ssa.CallCommon, ins ssa.Instruction) []Val {
	switch b.Name() {
	case "len":
		a := args[0]
		switch u := a.Ty.Underlying().(type) {
		case *types.Slice:
			x.guardValCheck(st, ins, a, false)
			return []Val{mkInt("(s_len " + a.T + ")")}
		case *types.Basic:
			return []Val{mkInt("(strlen " + a.T + ")")}
		case *types.Map:
			x.guardValCheck(st, ins, a, false)
			dn, ds, _, _ := x.mapHeaps(u)
			r := x.freshConst(st, "maplen", "Int")
			st.assume(eq(r, ite(eq(a.T, "0"), "0", app(x.cardFn(x.ctx.sortOf(u.Key())), sel(x.heap(st, dn, ds), a.T)))))
			st.assume("(>= " + r + " 0)")
			st.assume("(<= " + r + " 1152921504606846976)") // a map holds at most 2^60 entries (as for slice capacities)
			return []Val{mkInt(r)}
		case *types.Array:
			return []Val{mkInt(fmt.Sprint(u.Len()))}
		case *types.Pointer:
			if at, ok := u.Elem().Underlying().(*types.Array); ok {
				return []Val{mkInt(fmt.Sprint(at.Len()))}
			}
		case *types.Chan:
			r := x.freshConst(st, "chanlen", "Int")
			st.assume("(>= " + r + " 0)")
			return []Val{mkInt(r)}
		}
	case "cap":
		a := args[0]
		if _, ok := a.Ty.Underlying().(*types.Slice); ok {
			return []Val{mkInt("(s_cap " + a.T + ")")}
		}
	case "append":
		return []Val{x.appendOp(st, args, c, ins)}
	case "copy":
		return []Val{x.copyOp(st, args, c)}
	case "delete":
		m, k := args[0], args[1]
		mt := m.Ty.Underlying().(*types.Map)
		x.guardValCheck(st, ins, m, true)
		dn, ds, _, _ := x.mapHeaps(mt)
		d := x.heap(st, dn, ds)
		// delete on a nil map is a no-op
		x.setHeap(st, dn, ds, ite(eq(m.T, "0"), d, sto(d, m.T, sto(sel(d, m.T), x.termOf(st, k), "false"))))
		return nil
	case "panic":
		x.oblige(st, "safe:panic", x.ordinalFor(ins, "safe:panic", ""), "false", safetyTags, "explicit panic reachable")
		st.dead = true
		return nil
	case "print", "println":
		return nil
	case "recover":
		return []Val{{T: "iface_nil", Ty: c.Signature().Results().At(0).Type()}}
	case "min", "max":
		r := args[0].T
		for _, a := range args[1:] {
			if b.Name() == "min" {
				r = ite(app("<=", r, a.T), r, a.T)
			} else {
				r = ite(app(">=", r, a.T), r, a.T)
			}
		}
		return []Val{{T: r, Ty: args[0].Ty}}
	case "ssa:wrapnilchk":
		x.oblige(st, "safe:nil", x.ordinalFor(ins, "safe:nil", "wrapnilchk"), not(eq(x.termOf(st, args[0]), "0")), safetyTags, "nil receiver in method wrapper")
		return []Val{args[0]}
	case "close":
		return nil
	}
	x.unsup("builtin %s", b.Name())
	return nil
}

func (x *Exec) appendOp(st *State, args []Val, c *ssa.CallCommon, ins ssa.Instruction) Val {
	s, t := args[0], args[1]
	st0 := c.Args[0].Type().Underlying().(*types.Slice)
	et := st0.Elem()
	es := x.ctx.sortOf(et)
	hn, hs := x.elemHeap(et)
	h := x.heap(st, hn, hs)
	x.guardValCheck(st, ins, s, true)
	var tLen, tArr, tOff string
	if isStringTy(t.Ty) {
		// append([]byte, string...)
		fn := mangle(es) + "s_of_str"
		x.ctx.addDecl(fn, fmt.Sprintf("(declare-fun %s (Str) (Array Int %s))", fn, es))
		tLen, tOff = "(strlen "+t.T+")", "0"
		tArr = app(fn, t.T)
	} else {
		tLen, tOff = "(s_len "+t.T+")", "(s_off "+t.T+")"
		tArr = sel(h, "(s_arr "+t.T+")")
	}
	n := x.freshConst(st, "n", "Int")
	st.assume(eq(n, "(+ (s_len "+s.T+") "+tLen+")"))
	fits := x.freshConst(st, "fits", "Bool")
	st.assume(eq(fits, and("(<= "+n+" (s_cap "+s.T+"))", not(eq("(s_arr "+s.T+")", "0")))))
	// fresh backing array (used when capacity is exceeded)
	a := x.alloc(st)
	content := x.freshConst(st, "appended", fmt.Sprintf("(Array Int %s)", es))
	sArr, sOff, sLen := "(s_arr "+s.T+")", "(s_off "+s.T+")", "(s_len "+s.T+")"
	base := sel(h, sArr)
	// content describes the array that holds the result: either the old backing array updated in
	// place (indices off+len .. off+len+tLen) or a fresh array holding both parts from index 0.
	rOff := x.freshConst(st, "roff", "Int")
	st.assume(eq(rOff, ite(fits, sOff, "0")))
	st.assume(fmt.Sprintf("(forall ((i Int)) (! (=> (and (<= 0 i) (< i %s)) (= (select %s (+ %s i)) (select %s (+ %s i)))) :pattern ((select %s (+ %s i)))))", sLen, content, rOff, base, sOff, content, rOff))
	st.assume(fmt.Sprintf("(forall ((i Int)) (! (=> (and (<= 0 i) (< i %s)) (= (select %s (+ %s %s i)) (select %s (+ %s i)))) :pattern ((select %s (+ %s %s i)))))", tLen, content, rOff, sLen, tArr, tOff, content, rOff, sLen))
	// in place: all other cells of the old backing array are unchanged
	st.assume(implies(fits, fmt.Sprintf("(forall ((i Int)) (! (=> (or (< i (+ %s %s)) (>= i (+ %s %s))) (= (select %s i) (select %s i))) :pattern ((select %s i))))", sOff, sLen, sOff, n, content, base, content)))
	x.setHeap(st, hn, hs, ite(fits, sto(h, sArr, content), sto(h, a, content)))
	nc := x.freshConst(st, "ncap", "Int")
	st.assume(fmt.Sprintf("(and (>= %s %s) (<= %s 1152921504606846976))", nc, n, nc))
	r := x.freshConst(st, "app", "Slice")
	st.assume(eq(r, ite(fits, fmt.Sprintf("(mk_slice %s %s %s (s_cap %s))", sArr, sOff, n, s.T), fmt.Sprintf("(mk_slice %s 0 %s %s)", a, n, nc))))
	// append(nil, empty...) stays nil
	res := x.freshConst(st, "appr", "Slice")
	st.assume(eq(res, ite(and(eq(sArr, "0"), eq(tLen, "0")), "slice_nil", r)))
	// derived facts in trigger-friendly form (they follow from the definition above)
	at := x.atFn(et)
	h2 := x.heap(st, hn, hs)
	st.assume(fmt.Sprintf("(forall ((i Int)) (! (=> (and (<= 0 i) (< i %s)) (= (%s %s %s i) (%s %s %s i))) :pattern ((%s %s %s i)) :pattern ((%s %s %s i))))", sLen, at, h2, res, at, h, s.T, at, h2, res, at, h, s.T))
	if !isStringTy(t.Ty) {
		st.assume(fmt.Sprintf("(forall ((j Int)) (! (=> (and (<= %s j) (< j %s)) (= (%s %s %s j) (%s %s %s (- j %s)))) :pattern ((%s %s %s j))))", sLen, n, at, h2, res, at, h, t.T, sLen, at, h2, res))
		st.assume(implies(eq(tLen, "1"), eq(app(at, h2, res, sLen), app(at, h, t.T, "0"))))
	}
	return Val{T: res, Ty: c.Args[0].Type()}
}

func (x *Exec) copyOp(st *State, args []Val, c *ssa.CallCommon) Val {
	d, s := args[0], args[1]
	et := c.Args[0].Type().Underlying().(*types.Slice).Elem()
	es := x.ctx.sortOf(et)
	hn, hs := x.elemHeap(et)
	h := x.heap(st, hn, hs)
	var sLen, sArr, sOff string
	if isStringTy(s.Ty) {
		fn := mangle(es) + "s_of_str"
		x.ctx.addDecl(fn, fmt.Sprintf("(declare-fun %s (Str) (Array Int %s))", fn, es))
		sLen, sOff, sArr = "(strlen "+s.T+")", "0", app(fn, s.T)
	} else {
		sLen, sOff, sArr = "(s_len "+s.T+")", "(s_off "+s.T+")", sel(h, "(s_arr "+s.T+")")
	}
	n := x.freshConst(st, "ncopy", "Int")
	st.assume(eq(n, ite("(<= (s_len "+d.T+") "+sLen+")", "(s_len "+d.T+")", sLen)))
	content := x.freshConst(st, "copied", fmt.Sprintf("(Array Int %s)", es))
	dArr, dOff := "(s_arr "+d.T+")", "(s_off "+d.T+")"
	base := sel(h, dArr)
	st.assume(fmt.Sprintf("(forall ((i Int)) (! (= (select %s i) (ite (and (<= %s i) (< i (+ %s %s))) (select %s (+ %s (- i %s))) (select %s i))) :pattern ((select %s i))))", content, dOff, dOff, n, sArr, sOff, dOff, base, content))
	x.setHeap(st, hn, hs, ite("(> "+n+" 0)", sto(h, dArr, content), h))
	return mkInt(n)
}

// ---------------------------------------------------------------------------------------------
// guarded fields (lock discipline)

func (x *Exec) guardOfLoc(st *State, l *Loc) *GuardInfo {
	if l.Kind != LField || l.Parent == nil {
		return nil
	}
	g := x.guardDefFor(l.Parent.Elem, l.Field)
	if g == nil {
		return nil
	}
	stt := l.Parent.Elem.Underlying().(*types.Struct)
	// lock id: value of the lock field if it is a pointer, else address of the field
	path, ok := findField(l.Parent.Elem, g.Lock, 3)
	if !ok {
		return nil
	}
	cur := l.Parent
	var lockT string
	for i, idx := range path {
		cst := cur.Elem.Underlying().(*types.Struct)
		fl := &Loc{Kind: LField, Parent: cur, Field: idx, Elem: cst.Field(idx).Type()}
		if i == len(path)-1 {
			if isPointer(fl.Elem) {
				lockT = x.loadTerm(st, fl)
			} else {
				lockT = x.locTerm(st, fl)
			}
		} else {
			if isPointer(fl.Elem) {
				cur = &Loc{Kind: LRef, Ref: x.loadTerm(st, fl), Elem: fl.Elem.Underlying().(*types.Pointer).Elem()}
			} else {
				cur = fl
			}
		}
	}
	gi := &GuardInfo{Lock: "(* 3 " + lockT + ")", Desc: typeShort(l.Parent.Elem) + "." + stt.Field(l.Field).Name(), Tags: g.Tags}
	if l.Parent.Kind == LRef && l.Parent.Ref != "" {
		// an object allocated by this very call is not shared yet (constructors): no lock needed
		gi.FreshRef = l.Parent.Ref
	}
	return gi
}

func typeShort(t types.Type) string {
	return types.TypeString(t, func(p *types.Package) string { return "" })
}

func (x *Exec) guardDefFor(structT types.Type, field int) *GuardDef {
	nt, ok := structT.(*types.Named)
	if !ok {
		return nil
	}
	stt := structT.Underlying().(*types.Struct)
	fname := stt.Field(field).Name()
	for i := range x.db.Guards {
		g := &x.db.Guards[i]
		if g.Struct == nt.Obj().Name() && g.Field == fname && nt.Obj().Pkg() != nil && nt.Obj().Pkg().Path() == g.Pkg {
			return g
		}
	}
	return nil
}

func (x *Exec) held(st *State) string {
	return x.heap(st, "G$held", "(Array Int Int)")
}

func (x *Exec) guardLockCheck(st *State, ins ssa.Instruction, g *GuardInfo, write bool, what string) {
	if x.inConstructor() {
		return
	}
	need := "1"
	mode := "read"
	if write {
		need, mode = "2", "write"
	}
	goal := fmt.Sprintf("(>= (select %s %s) %s)", x.held(st), g.Lock, need)
	if g.FreshRef != "" {
		goal = fmt.Sprintf("(or (>= %s $alloc@e0) %s)", g.FreshRef, goal)
	}
	x.oblige(st, "lock", x.ordinalFor(ins, "lock", g.Desc+"/"+what), goal, append([]string{"C19"}, g.Tags...), fmt.Sprintf("%s of %s (%s) with its lock held (or on an object allocated by this call)", mode, g.Desc, what))
}

// guardCheck: access through an address (load/store of the field itself)
func (x *Exec) guardCheck(st *State, ins ssa.Instruction, addr Val, write bool) {
	if addr.Loc == nil || len(x.db.Guards) == 0 {
		return
	}
	if g := x.guardOfLoc(st, addr.Loc); g != nil {
		x.guardLockCheck(st, ins, g, write, map[bool]string{true: "store", false: "load"}[write])
	}
	if write {
		x.immutableCheck(st, ins, addr.Loc)
	}
}

// guardValCheck: operation on a map/slice value that was loaded from a guarded field
func (x *Exec) guardValCheck(st *State, ins ssa.Instruction, v Val, write bool) {
	if v.Guard != nil {
		x.guardLockCheck(st, ins, v.Guard, write, "contents")
	}
}

func (x *Exec) inConstructor() bool {
	return x.curCon != nil && x.curCon.MathInt && false
}

func (x *Exec) immutableCheck(st *State, ins ssa.Instruction, l *Loc) {
	if l.Kind != LField || l.Parent == nil {
		return
	}
	nt, ok := l.Parent.Elem.(*types.Named)
	if !ok {
		return
	}
	stt := l.Parent.Elem.Underlying().(*types.Struct)
	for i := range x.db.Immutable {
		g := &x.db.Immutable[i]
		if g.Struct == nt.Obj().Name() && g.Field == stt.Field(l.Field).Name() && nt.Obj().Pkg().Path() == g.Pkg {
			// stores are allowed only to objects allocated by this very call (not yet published)
			if l.Parent.Kind == LRef {
				x.oblige(st, "immutable", x.ordinalFor(ins, "immutable", g.Struct+"."+g.Field), fmt.Sprintf("(>= %s $alloc@e0)", l.Parent.Ref), append([]string{"C19"}, g.Tags...), "store to immutable-after-publication field "+g.Struct+"."+g.Field+" only on an object allocated by this call")
			}
		}
	}
}


func onlyScalarFields(t types.Type) bool {
	st, ok := t.Underlying().(*types.Struct)
	if !ok {
		return false
	}
	for i := 0; i < st.NumFields(); i++ {
		b, ok := st.Field(i).Type().Underlying().(*types.Basic)
		if !ok || b.Info()&(types.IsString|types.IsBoolean|types.IsInteger) == 0 {
			return false
		}
	}
	return true
}
