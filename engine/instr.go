package main

// Instruction semantics and control flow.

import (
	"fmt"
	"go/token"
	"go/types"
	"strings"

	"golang.org/x/tools/go/ssa"
)

var safetyTags = []string{"C18"}

// run executes block b (entered from block `from`) starting at instruction idx.
func (x *Exec) run(st *State, b *ssa.BasicBlock, from *ssa.BasicBlock, idx int) {
	for {
		if st.dead {
			return
		}
		if idx == 0 {
			if !x.enterBlock(st, b, from) {
				return
			}
			// skip phis
			for idx < len(b.Instrs) {
				if _, ok := b.Instrs[idx].(*ssa.Phi); ok {
					idx++
				} else {
					break
				}
			}
		}
		f := st.top()
		for idx < len(b.Instrs) {
			ins := b.Instrs[idx]
			st.steps++
			if st.steps > x.maxSteps {
				x.unsup("step budget exceeded")
			}
			switch t := ins.(type) {
			case *ssa.If:
				c := x.operand(st, t.Cond)
				thenB, elseB := b.Succs[0], b.Succs[1]
				if c.T == "true" {
					b, from, idx = thenB, b, 0
					goto next
				}
				if c.T == "false" {
					b, from, idx = elseB, b, 0
					goto next
				}
				if skip := x.effectFreeArm(t, b, st); skip != nil {
					// a branch arm that only logs (no effect on modelled state, defines nothing that is
					// used afterwards): both outcomes continue identically at the join block
					b, from, idx = skip, b, 0
					goto next
				}
				x.paths++
				if x.paths > x.maxPaths {
					x.unsup("path budget exceeded (%d)", x.maxPaths)
				}
				other := st.fork()
				st.assume(c.T)
				st.pcDesc = append(st.pcDesc, x.branchDesc(t, true))
				other.assume(not(c.T))
				other.pcDesc = append(other.pcDesc, x.branchDesc(t, false))
				x.run(st, thenB, b, 0)
				x.run(other, elseB, b, 0)
				return
			case *ssa.Jump:
				b, from, idx = b.Succs[0], b, 0
				goto next
			case *ssa.Return:
				var res []Val
				for _, r := range t.Results {
					res = append(res, x.operand(st, r))
				}
				x.doReturn(st, res)
				return
			case *ssa.Panic:
				x.oblige(st, "safe:panic", x.ordinalFor(ins, "safe:panic", ""), "false", safetyTags, "explicit panic reachable")
				return
			case *ssa.Call:
				// calls may continue in an inlined callee; the continuation resumes here
				blk, i := b, idx
				frameID := f.id
				cont := func(st2 *State, results []Val) {
					f2 := st2.top()
					if f2.id != frameID {
						x.unsup("frame mismatch after call")
					}
					x.bindResults(st2, t, results)
					x.run(st2, blk, nil, i+1)
				}
				x.doCall(st, &t.Call, cont, ins)
				return
			case *ssa.RunDefers:
				blk, i := b, idx
				x.runDefers(st, func(st2 *State) { x.run(st2, blk, nil, i+1) })
				return
			}
			x.step(st, ins)
			idx++
		}
		return
	next:
	}
}

func (x *Exec) branchDesc(t *ssa.If, taken bool) string {
	pos := x.L.fset.Position(t.Cond.Pos())
	s := fmt.Sprintf("%s:%d", shortFile(pos.Filename), pos.Line)
	if !pos.IsValid() {
		s = t.Cond.Name()
	}
	if taken {
		return s + " true"
	}
	return s + " false"
}

func shortFile(f string) string {
	if i := strings.LastIndex(f, "/"); i >= 0 {
		return f[i+1:]
	}
	return f
}

func (x *Exec) bindResults(st *State, call ssa.Value, results []Val) {
	f := st.top()
	sig := call.Type()
	if tup, ok := sig.(*types.Tuple); ok {
		if tup.Len() == 0 {
			return
		}
		f.env[call] = Val{Ty: sig, Tup: results}
		return
	}
	if len(results) == 1 {
		f.env[call] = results[0]
	} else if len(results) == 0 {
		f.env[call] = Val{Ty: sig}
	} else {
		f.env[call] = Val{Ty: sig, Tup: results}
	}
}

// step executes one non-control instruction.
func (x *Exec) step(st *State, ins ssa.Instruction) {
	f := st.top()
	switch t := ins.(type) {
	case *ssa.DebugRef:
	case *ssa.Alloc:
		elem := t.Type().(*types.Pointer).Elem()
		if isStruct(elem) || isArray(elem) {
			r := x.alloc(st)
			l := &Loc{Kind: LRef, Ref: r, Elem: elem}
			x.storeTerm(st, l, x.ctx.zeroOf(elem))
			f.env[t] = Val{T: r, Ty: t.Type(), Loc: l}
		} else {
			x.cellSeq++
			id := x.cellSeq
			st.cells[id] = x.zeroVal(elem)
			f.env[t] = Val{Ty: t.Type(), Loc: &Loc{Kind: LCell, Cell: id, Elem: elem, Src: t}}
		}
	case *ssa.BinOp:
		f.env[t] = x.binop(st, t)
	case *ssa.UnOp:
		f.env[t] = x.unop(st, t)
	case *ssa.Store:
		addr := x.operand(st, t.Addr)
		v := x.operand(st, t.Val)
		x.checkDeref(st, ins, addr, "store")
		x.guardCheck(st, ins, addr, true)
		x.store(st, addr.Loc, v)
	case *ssa.FieldAddr:
		p := x.operand(st, t.X)
		if p.Loc == nil {
			x.unsup("FieldAddr on non-pointer value")
		}
		if p.Loc.Kind == LRef {
			x.oblige(st, "safe:nil", x.ordinalFor(ins, "safe:nil", fieldName(t)), not(eq(p.Loc.Ref, "0")), safetyTags, "nil pointer dereference at field "+fieldName(t))
		}
		stt := p.Loc.Elem.Underlying().(*types.Struct)
		f.env[t] = Val{Ty: t.Type(), Loc: &Loc{Kind: LField, Parent: p.Loc, Field: t.Field, Elem: stt.Field(t.Field).Type()}}
	case *ssa.Field:
		s := x.operand(st, t.X)
		sn, stt := x.structCanon(t.X.Type())
		term := fmt.Sprintf("(%s %s)", x.ctx.fieldAcc(sn, stt, t.Field), s.T)
		f.env[t] = x.valFromTerm(term, stt.Field(t.Field).Type())
	case *ssa.IndexAddr:
		f.env[t] = x.indexAddr(st, t)
	case *ssa.Index:
		a := x.operand(st, t.X)
		i := x.operand(st, t.Index)
		switch u := t.X.Type().Underlying().(type) {
		case *types.Array:
			x.oblige(st, "safe:index", x.ordinalFor(ins, "safe:index", ""), fmt.Sprintf("(and (<= 0 %s) (< %s %d))", i.T, i.T, u.Len()), safetyTags, "array index in range")
			f.env[t] = x.valFromTerm(sel(a.T, i.T), u.Elem())
		case *types.Basic: // string
			x.oblige(st, "safe:index", x.ordinalFor(ins, "safe:index", ""), fmt.Sprintf("(and (<= 0 %s) (< %s (strlen %s)))", i.T, i.T, a.T), safetyTags, "string index in range")
			f.env[t] = Val{T: app("str_at", a.T, i.T), Ty: t.Type()}
		default:
			x.unsup("Index on %s", t.X.Type())
		}
	case *ssa.Lookup:
		x.lookup(st, t)
	case *ssa.MapUpdate:
		m := x.operand(st, t.Map)
		k := x.operand(st, t.Key)
		v := x.operand(st, t.Value)
		mt := t.Map.Type().Underlying().(*types.Map)
		x.oblige(st, "safe:nilmap", x.ordinalFor(ins, "safe:nilmap", ""), not(eq(m.T, "0")), safetyTags, "assignment to entry in nil map")
		x.guardValCheck(st, ins, m, true)
		dn, ds, vn, vs := x.mapHeaps(mt)
		d, vv := x.heap(st, dn, ds), x.heap(st, vn, vs)
		kt := x.termOf(st, k)
		x.setHeap(st, dn, ds, sto(d, m.T, sto(sel(d, m.T), kt, "true")))
		x.setHeap(st, vn, vs, sto(vv, m.T, sto(sel(vv, m.T), kt, x.termOf(st, v))))
	case *ssa.MakeMap:
		mt := t.Type().Underlying().(*types.Map)
		r := x.alloc(st)
		dn, ds, _, _ := x.mapHeaps(mt)
		d := x.heap(st, dn, ds)
		x.setHeap(st, dn, ds, sto(d, r, fmt.Sprintf("((as const (Array %s Bool)) false)", x.ctx.sortOf(mt.Key()))))
		f.env[t] = Val{T: r, Ty: t.Type()}
	case *ssa.MakeSlice:
		ln, cp := x.operand(st, t.Len), x.operand(st, t.Cap)
		x.oblige(st, "safe:makeslice", x.ordinalFor(ins, "safe:makeslice", ""), fmt.Sprintf("(and (<= 0 %s) (<= %s %s) (<= %s 1152921504606846976))", ln.T, ln.T, cp.T, cp.T), safetyTags, "makeslice: len/cap in range")
		et := t.Type().Underlying().(*types.Slice).Elem()
		r := x.alloc(st)
		hn, hs := x.elemHeap(et)
		x.setHeap(st, hn, hs, sto(x.heap(st, hn, hs), r, fmt.Sprintf("((as const (Array Int %s)) %s)", x.ctx.sortOf(et), x.ctx.zeroOf(et))))
		f.env[t] = Val{T: fmt.Sprintf("(mk_slice %s 0 %s %s)", r, ln.T, cp.T), Ty: t.Type()}
	case *ssa.MakeChan:
		r := x.alloc(st)
		f.env[t] = Val{T: r, Ty: t.Type()}
	case *ssa.MakeClosure:
		var bs []Val
		for _, b := range t.Bindings {
			bs = append(bs, x.operand(st, b))
		}
		f.env[t] = Val{Ty: t.Type(), Clo: &Closure{Fn: t.Fn.(*ssa.Function), Bindings: bs}}
	case *ssa.MakeInterface:
		v := x.operand(st, t.X)
		f.env[t] = x.makeIface(st, v, t.X.Type(), t.Type())
	case *ssa.ChangeInterface:
		v := x.operand(st, t.X)
		f.env[t] = Val{T: v.T, Ty: t.Type(), Inner: v.Inner}
	case *ssa.ChangeType:
		v := x.operand(st, t.X)
		nv := v
		nv.Ty = t.Type()
		if v.Loc != nil && v.Loc.Kind == LRef {
			if p, ok := t.Type().Underlying().(*types.Pointer); ok {
				nv.Loc = &Loc{Kind: LRef, Ref: v.Loc.Ref, Elem: p.Elem()}
			}
		}
		f.env[t] = nv
	case *ssa.Convert:
		f.env[t] = x.convert(st, t)
	case *ssa.TypeAssert:
		x.typeAssert(st, t)
	case *ssa.Extract:
		tup := x.operand(st, t.Tuple)
		if t.Index >= len(tup.Tup) {
			x.unsup("extract %d of %d", t.Index, len(tup.Tup))
		}
		f.env[t] = tup.Tup[t.Index]
	case *ssa.Slice:
		f.env[t] = x.sliceOp(st, t)
	case *ssa.Range:
		m := x.operand(st, t.X)
		x.iterSeq++
		it := &RangeIter{ID: x.iterSeq, Map: m}
		if mt, ok := t.X.Type().Underlying().(*types.Map); ok {
			it.KeyTy, it.ValTy, it.MapTy = mt.Key(), mt.Elem(), mt
			st.iters[it.ID] = fmt.Sprintf("((as const (Array %s Bool)) false)", x.ctx.sortOf(mt.Key()))
			x.guardValCheck(st, ins, m, false)
			it.Guard = m.Guard
		} else {
			it.IsStr = true
			st.iters[it.ID] = "0"
		}
		f.env[t] = Val{Ty: t.Type(), It: it}
	case *ssa.Next:
		x.next(st, t)
	case *ssa.Defer:
		d := deferred{call: &t.Call, pos: ins}
		for _, a := range t.Call.Args {
			d.args = append(d.args, x.operand(st, a))
		}
		if !t.Call.IsInvoke() {
			if _, isB := t.Call.Value.(*ssa.Builtin); !isB {
				d.fnv = x.operand(st, t.Call.Value)
			}
		} else {
			d.fnv = x.operand(st, t.Call.Value)
		}
		f.defers = append(f.defers, d)
	case *ssa.Send:
		// a channel send has no effect on the modelled state; that it does not block forever is
		// NOT modelled (recorded as a gap of the function)
		_ = x.operand(st, t.Chan)
		_ = x.operand(st, t.X)
		x.gap(x.curKey + ": channel send treated as a no-op (blocking not modelled)")
	case *ssa.Go, *ssa.Select:
		x.unsup("concurrency instruction %T", ins)
	case *ssa.SliceToArrayPointer, *ssa.MultiConvert:
		x.unsup("%T", ins)
	default:
		x.unsup("instruction %T", ins)
	}
}

func fieldName(t *ssa.FieldAddr) string {
	st := t.X.Type().Underlying().(*types.Pointer).Elem().Underlying().(*types.Struct)
	return st.Field(t.Field).Name()
}

func (x *Exec) checkDeref(st *State, ins ssa.Instruction, p Val, what string) {
	if p.Loc == nil {
		x.unsup("%s through non-pointer", what)
	}
	if p.Loc.Kind == LRef {
		x.oblige(st, "safe:nil", x.ordinalFor(ins, "safe:nil", what), not(eq(p.Loc.Ref, "0")), safetyTags, "nil pointer dereference ("+what+")")
	}
}

func (x *Exec) unop(st *State, t *ssa.UnOp) Val {
	v := x.operand(st, t.X)
	switch t.Op {
	case token.MUL:
		x.checkDeref(st, t, v, "load")
		x.guardCheck(st, t, v, false)
		r := x.load(st, v.Loc)
		if r.T != "" && r.Ty != nil && v.Loc.Kind != LCell {
			// name the loaded value and assume its typing invariant
			c := x.freshConst(st, "ld", x.ctx.sortOf(r.Ty))
			st.assume(eq(c, r.T))
			x.assumeWF(st, c, r.Ty)
			nv := x.valFromTerm(c, r.Ty)
			nv.Guard = x.guardOfLoc(st, v.Loc)
			return nv
		}
		return r
	case token.NOT:
		return Val{T: not(v.T), Ty: t.Type()}
	case token.SUB:
		bits, signed, ok := intInfo(t.Type())
		if ok {
			raw := "(- " + v.T + ")"
			if !signed {
				return Val{T: wrapUnsigned(raw, bits), Ty: t.Type()}
			}
			return Val{T: wrapSigned(raw, bits), Ty: t.Type()}
		}
		return Val{T: "(- " + v.T + ")", Ty: t.Type()}
	case token.XOR:
		bits, signed, _ := intInfo(t.Type())
		if signed {
			return Val{T: "(- (- " + v.T + ") 1)", Ty: t.Type()}
		}
		lo, hi := intRange(bits, false)
		_ = lo
		return Val{T: "(- " + hi + " " + v.T + ")", Ty: t.Type()}
	case token.ARROW:
		x.unsup("channel receive")
	}
	x.unsup("unop %s", t.Op)
	return Val{}
}

func (x *Exec) indexAddr(st *State, t *ssa.IndexAddr) Val {
	a := x.operand(st, t.X)
	i := x.operand(st, t.Index)
	switch u := t.X.Type().Underlying().(type) {
	case *types.Slice:
		x.guardValCheck(st, t, a, false)
		x.oblige(st, "safe:index", x.ordinalFor(t, "safe:index", ""), fmt.Sprintf("(and (<= 0 %s) (< %s (s_len %s)))", i.T, i.T, a.T), safetyTags, "index out of range")
		return Val{Ty: t.Type(), Loc: &Loc{Kind: LElem, Arr: a.T, Idx: i.T, Elem: u.Elem()}}
	case *types.Pointer:
		at := u.Elem().Underlying().(*types.Array)
		if a.Loc == nil {
			x.unsup("IndexAddr on opaque array pointer")
		}
		x.oblige(st, "safe:index", x.ordinalFor(t, "safe:index", ""), fmt.Sprintf("(and (<= 0 %s) (< %s %d))", i.T, i.T, at.Len()), safetyTags, "array index out of range")
		if a.Loc.Kind == LRef {
			x.oblige(st, "safe:nil", x.ordinalFor(t, "safe:nil", "arr"), not(eq(a.Loc.Ref, "0")), safetyTags, "nil array pointer")
			return Val{Ty: t.Type(), Loc: &Loc{Kind: LElem, Arr: fmt.Sprintf("(mk_slice %s 0 %d %d)", a.Loc.Ref, at.Len(), at.Len()), Idx: i.T, Elem: at.Elem()}}
		}
		return Val{Ty: t.Type(), Loc: &Loc{Kind: LArrIdx, Parent: a.Loc, Idx: i.T, Elem: at.Elem()}}
	}
	x.unsup("IndexAddr on %s", t.X.Type())
	return Val{}
}

func (x *Exec) lookup(st *State, t *ssa.Lookup) {
	f := st.top()
	m := x.operand(st, t.X)
	k := x.operand(st, t.Index)
	switch u := t.X.Type().Underlying().(type) {
	case *types.Map:
		x.guardValCheck(st, t, m, false)
		dn, ds, vn, vs := x.mapHeaps(u)
		d, vv := x.heap(st, dn, ds), x.heap(st, vn, vs)
		kt := x.termOf(st, k)
		ok := x.freshConst(st, "ok", "Bool")
		st.assume(eq(ok, and(not(eq(m.T, "0")), sel(sel(d, m.T), kt))))
		v := x.freshConst(st, "mv", x.ctx.sortOf(u.Elem()))
		st.assume(eq(v, ite(ok, sel(sel(vv, m.T), kt), x.ctx.zeroOf(u.Elem()))))
		x.assumeWF(st, v, u.Elem())
		val := x.valFromTerm(v, u.Elem())
		if t.CommaOk {
			f.env[t] = Val{Ty: t.Type(), Tup: []Val{val, {T: ok, Ty: types.Typ[types.Bool]}}}
		} else {
			f.env[t] = val
		}
	case *types.Basic:
		x.oblige(st, "safe:index", x.ordinalFor(t, "safe:index", ""), fmt.Sprintf("(and (<= 0 %s) (< %s (strlen %s)))", k.T, k.T, m.T), safetyTags, "string index in range")
		f.env[t] = Val{T: app("str_at", m.T, k.T), Ty: t.Type()}
	default:
		x.unsup("Lookup on %s", t.X.Type())
	}
}

func (x *Exec) next(st *State, t *ssa.Next) {
	f := st.top()
	itv := x.operand(st, t.Iter)
	it := itv.It
	if it == nil {
		x.unsup("Next on unknown iterator")
	}
	if it.IsStr {
		x.unsup("range over string")
	}
	mt := it.MapTy.Underlying().(*types.Map)
	dn, ds, vn, vs := x.mapHeaps(mt)
	d, vv := x.heap(st, dn, ds), x.heap(st, vn, vs)
	ks := x.ctx.sortOf(it.KeyTy)
	ok := x.freshConst(st, "more", "Bool")
	k := x.freshConst(st, "key", ks)
	visited := st.iters[it.ID]
	m := it.Map.T
	if it.Guard != nil {
		x.guardLockCheck(st, t, it.Guard, false, "range step")
	}
	st.assume(implies(ok, and(not(eq(m, "0")), sel(sel(d, m), k), not(sel(visited, k)))))
	st.assume(implies(not(ok), fmt.Sprintf("(forall ((kk %s)) (! (=> (and (not (= %s 0)) (select (select %s %s) kk)) (select %s kk)) :pattern ((select %s kk))))", ks, m, d, m, visited, visited)))
	nv := x.freshConst(st, "visited", fmt.Sprintf("(Array %s Bool)", ks))
	st.assume(eq(nv, ite(ok, sto(visited, k, "true"), visited)))
	st.iters[it.ID] = nv
	v := x.freshConst(st, "val", x.ctx.sortOf(it.ValTy))
	st.assume(eq(v, sel(sel(vv, m), k)))
	st.assume(implies(ok, x.wfTerm(st, v, it.ValTy, 3)))
	st.assume(implies(ok, x.wfTerm(st, k, it.KeyTy, 3)))
	f.env[t] = Val{Ty: t.Type(), Tup: []Val{{T: ok, Ty: types.Typ[types.Bool]}, x.valFromTerm(k, it.KeyTy), x.valFromTerm(v, it.ValTy)}}
}

func (x *Exec) makeIface(st *State, v Val, from types.Type, to types.Type) Val {
	if _, isIface := from.Underlying().(*types.Interface); isIface {
		return Val{T: v.T, Ty: to}
	}
	tag := x.ctx.typeTag(from)
	var payload string
	switch from.Underlying().(type) {
	case *types.Pointer, *types.Map, *types.Chan:
		if v.Loc != nil && v.Loc.Kind == LCell {
			// the address of a local variable: not modelled as a value (opaque, non-nil); the
			// library models reach the variable through Inner.Loc
			payload = x.freshConst(st, "celladdr", "Int")
			st.assume("(> " + payload + " 0)")
		} else {
			payload = x.termOf(st, v)
		}
	case *types.Signature:
		payload = x.termOf(st, v)
	default:
		box, _ := x.ctx.boxFns(from)
		payload = app(box, x.termOf(st, v))
		// boxed payloads are never the nil payload marker; keep them below alloc
	}
	c := x.freshConst(st, "iface", "Iface")
	st.assume(eq(c, fmt.Sprintf("(mk_iface %d %s)", tag, payload)))
	inner := v
	return Val{T: c, Ty: to, Inner: &inner}
}

func (x *Exec) typeAssert(st *State, t *ssa.TypeAssert) {
	f := st.top()
	v := x.operand(st, t.X)
	at := t.AssertedType
	var okT string
	var res Val
	if _, isIface := at.Underlying().(*types.Interface); isIface {
		// interface-to-interface assertion: succeeds iff non-nil and dynamic type implements; unknown
		c := x.freshConst(st, "implements", "Bool")
		okT = and(not(eq(v.T, "iface_nil")), c)
		if types.Identical(at.Underlying(), t.X.Type().Underlying()) || at.Underlying().(*types.Interface).NumMethods() == 0 {
			okT = not(eq(v.T, "iface_nil"))
		}
		res = Val{T: v.T, Ty: at}
	} else {
		tag := x.ctx.typeTag(at)
		okT = eq("(i_tag "+v.T+")", fmt.Sprint(tag))
		switch at.Underlying().(type) {
		case *types.Pointer, *types.Map, *types.Chan, *types.Signature:
			res = x.valFromTerm("(i_val "+v.T+")", at)
		default:
			_, unbox := x.ctx.boxFns(at)
			res = x.valFromTerm(app(unbox, "(i_val "+v.T+")"), at)
		}
	}
	if t.CommaOk {
		ok := x.freshConst(st, "taok", "Bool")
		st.assume(eq(ok, okT))
		r := x.freshConst(st, "ta", x.ctx.sortOf(at))
		st.assume(eq(r, ite(ok, x.termOf(st, res), x.ctx.zeroOf(at))))
		st.assume(implies(ok, x.wfTerm(st, r, at, 2)))
		f.env[t] = Val{Ty: t.Type(), Tup: []Val{x.valFromTerm(r, at), {T: ok, Ty: types.Typ[types.Bool]}}}
		return
	}
	x.oblige(st, "safe:assert", x.ordinalFor(t, "safe:assert", ""), okT, safetyTags, "type assertion without comma-ok holds")
	r := x.freshConst(st, "ta", x.ctx.sortOf(at))
	st.assume(eq(r, x.termOf(st, res)))
	x.assumeWF(st, r, at)
	f.env[t] = x.valFromTerm(r, at)
}

func (x *Exec) sliceOp(st *State, t *ssa.Slice) Val {
	v := x.operand(st, t.X)
	var lo, hi, mx string
	if t.Low != nil {
		lo = x.operand(st, t.Low).T
	} else {
		lo = "0"
	}
	switch u := t.X.Type().Underlying().(type) {
	case *types.Slice:
		x.guardValCheck(st, t, v, false)
		if t.High != nil {
			hi = x.operand(st, t.High).T
		} else {
			hi = "(s_len " + v.T + ")"
		}
		capT := "(s_cap " + v.T + ")"
		if t.Max != nil {
			mx = x.operand(st, t.Max).T
		} else {
			mx = capT
		}
		x.oblige(st, "safe:slice", x.ordinalFor(t, "safe:slice", ""), fmt.Sprintf("(and (<= 0 %s) (<= %s %s) (<= %s %s) (<= %s %s))", lo, lo, hi, hi, mx, mx, capT), safetyTags, "slice bounds in range")
		r := x.freshConst(st, "sl", "Slice")
		st.assume(eq(r, fmt.Sprintf("(mk_slice (s_arr %s) (+ (s_off %s) %s) (- %s %s) (- %s %s))", v.T, v.T, lo, hi, lo, mx, lo)))
		nv := Val{T: r, Ty: t.Type(), Guard: v.Guard}
		return nv
	case *types.Basic: // string
		if t.High != nil {
			hi = x.operand(st, t.High).T
		} else {
			hi = "(strlen " + v.T + ")"
		}
		x.oblige(st, "safe:slice", x.ordinalFor(t, "safe:slice", ""), fmt.Sprintf("(and (<= 0 %s) (<= %s %s) (<= %s (strlen %s)))", lo, lo, hi, hi, v.T), safetyTags, "string slice bounds in range")
		return Val{T: app("str_sub", v.T, lo, hi), Ty: t.Type()}
	case *types.Pointer:
		at := u.Elem().Underlying().(*types.Array)
		n := fmt.Sprint(at.Len())
		if t.High != nil {
			hi = x.operand(st, t.High).T
		} else {
			hi = n
		}
		if v.Loc == nil || v.Loc.Kind != LRef {
			x.unsup("slice of array pointer that is not a heap object")
		}
		x.oblige(st, "safe:nil", x.ordinalFor(t, "safe:nil", "arr"), not(eq(v.Loc.Ref, "0")), safetyTags, "nil array pointer")
		x.oblige(st, "safe:slice", x.ordinalFor(t, "safe:slice", ""), fmt.Sprintf("(and (<= 0 %s) (<= %s %s) (<= %s %s))", lo, lo, hi, hi, n), safetyTags, "slice bounds in range")
		return Val{T: fmt.Sprintf("(mk_slice %s %s (- %s %s) %s)", v.Loc.Ref, lo, hi, lo, n), Ty: t.Type()}
	}
	x.unsup("Slice on %s", t.X.Type())
	return Val{}
}

func (x *Exec) convert(st *State, t *ssa.Convert) Val {
	v := x.operand(st, t.X)
	from, to := t.X.Type(), t.Type()
	_, _, fi := intInfo(from)
	_, _, ti := intInfo(to)
	if fi && ti {
		nv := Val{T: x.convertInt(st, v.T, from, to), Ty: to}
		if nv.T == v.T {
			nv.Hi, nv.Lo = knownBits(v, from)
		}
		return nv
	}
	fb, _ := from.Underlying().(*types.Basic)
	tb, _ := to.Underlying().(*types.Basic)
	switch {
	case tb != nil && tb.Info()&types.IsString != 0 && fb != nil && fb.Info()&types.IsString != 0:
		return Val{T: v.T, Ty: to}
	case tb != nil && tb.Info()&types.IsString != 0:
		if sl, ok := from.Underlying().(*types.Slice); ok {
			hn, hs := x.elemHeap(sl.Elem())
			fn := "str_of_" + mangle(x.ctx.sortOf(sl.Elem())) + "s"
			x.ctx.addDecl(fn, fmt.Sprintf("(declare-fun %s ((Array Int %s) Int Int) Str)", fn, x.ctx.sortOf(sl.Elem())))
			r := x.freshConst(st, "str", "Str")
			st.assume(eq(r, app(fn, sel(x.heap(st, hn, hs), "(s_arr "+v.T+")"), "(s_off "+v.T+")", "(s_len "+v.T+")")))
			if b, ok := sl.Elem().Underlying().(*types.Basic); ok && b.Kind() == types.Uint8 {
				st.assume(eq("(strlen "+r+")", "(s_len "+v.T+")"))
			}
			return Val{T: r, Ty: to}
		}
		// integer to string
		x.ctx.addDecl("str_of_rune", "(declare-fun str_of_rune (Int) Str)")
		return Val{T: app("str_of_rune", v.T), Ty: to}
	case fb != nil && fb.Info()&types.IsString != 0:
		if sl, ok := to.Underlying().(*types.Slice); ok {
			r := x.alloc(st)
			hn, hs := x.elemHeap(sl.Elem())
			es := x.ctx.sortOf(sl.Elem())
			fn := mangle(es) + "s_of_str"
			x.ctx.addDecl(fn, fmt.Sprintf("(declare-fun %s (Str) (Array Int %s))", fn, es))
			x.setHeap(st, hn, hs, sto(x.heap(st, hn, hs), r, app(fn, v.T)))
			ln := "(strlen " + v.T + ")"
			if b, ok := sl.Elem().Underlying().(*types.Basic); !ok || b.Kind() != types.Uint8 {
				ln = x.freshConst(st, "runes", "Int")
				st.assume(fmt.Sprintf("(and (<= 0 %s) (<= %s (strlen %s)))", ln, ln, v.T))
			}
			s := x.freshConst(st, "sl", "Slice")
			st.assume(eq(s, fmt.Sprintf("(mk_slice %s 0 %s %s)", r, ln, ln)))
			if b, ok := sl.Elem().Underlying().(*types.Basic); ok && b.Kind() == types.Uint8 {
				// bytes are in range
				st.assume(fmt.Sprintf("(forall ((i Int)) (! (and (<= 0 (select (%s %s) i)) (< (select (%s %s) i) 256)) :pattern ((select (%s %s) i))))", fn, v.T, fn, v.T, fn, v.T))
			}
			return Val{T: s, Ty: to}
		}
	}
	// int <-> float and others: unconstrained result of the target type
	r := x.freshConst(st, "conv", x.ctx.sortOf(to))
	x.assumeWF(st, r, to)
	return x.valFromTerm(r, to)
}

// ---------------------------------------------------------------------------------------------
// return and defers

func (x *Exec) runDefers(st *State, k func(st *State)) {
	f := st.top()
	if len(f.defers) == 0 {
		k(st)
		return
	}
	d := f.defers[len(f.defers)-1]
	f.defers = f.defers[:len(f.defers)-1]
	cont := func(st2 *State, _ []Val) { x.runDefers(st2, k) }
	x.doCallVals(st, d.call, d.fnv, d.args, cont, d.pos)
}

func (x *Exec) doReturn(st *State, results []Val) {
	f := st.top()
	if f.cont == nil {
		x.unsup("return without continuation")
	}
	cont := f.cont
	if !f.isTop {
		st.frames = st.frames[:len(st.frames)-1]
	}
	cont(st, results)
}


// effectFreeArm recognises `if c { <only effect-free calls> }` (no else): the then-block jumps to
// the else-target, contains only pure computations, allocations of argument arrays and calls of
// functions declared noeffect (logging), and no value defined in it is used outside of it. The
// join block must not have phis. Returns the join block.
func (x *Exec) effectFreeArm(t *ssa.If, b *ssa.BasicBlock, st *State) *ssa.BasicBlock {
	for _, pair := range [][2]*ssa.BasicBlock{{b.Succs[0], b.Succs[1]}, {b.Succs[1], b.Succs[0]}} {
		arm, join := pair[0], pair[1]
		if len(arm.Preds) != 1 || len(arm.Succs) != 1 || arm.Succs[0] != join {
			continue
		}
		if len(join.Instrs) > 0 {
			if _, isPhi := join.Instrs[0].(*ssa.Phi); isPhi {
				continue
			}
		}
		ok := true
		for _, ins := range arm.Instrs {
			switch v := ins.(type) {
			case *ssa.Jump, *ssa.DebugRef:
			case *ssa.Alloc, *ssa.IndexAddr, *ssa.FieldAddr, *ssa.MakeInterface, *ssa.Slice, *ssa.BinOp, *ssa.Convert, *ssa.ChangeType, *ssa.ChangeInterface, *ssa.Extract, *ssa.Field:
			case *ssa.UnOp:
				// loads are fine (a nil dereference inside a logging arm is still checked by the sweep
				// of that function when the arm is not elided: elision is only used for contract runs)
			case *ssa.Store:
				// only stores into arrays allocated in this arm (varargs)
				if !x.rootIsLocalAlloc(v.Addr, []*ssa.BasicBlock{arm}, nil) {
					ok = false
				}
			case *ssa.Call:
				if !x.callIsEffectFree(&v.Call) {
					ok = false
				}
			default:
				ok = false
			}
			if !ok {
				break
			}
			if val, isVal := ins.(ssa.Value); isVal && val.Referrers() != nil {
				for _, r := range *val.Referrers() {
					if r.Block() != arm {
						ok = false
					}
				}
			}
		}
		if ok && x.mode != "sweep" {
			return join
		}
	}
	return nil
}

func (x *Exec) callIsEffectFree(c *ssa.CallCommon) bool {
	if c.IsInvoke() {
		con := x.contractForMethod(c)
		if con == nil {
			full := "(" + types.TypeString(c.Value.Type(), func(p *types.Package) string { return p.Path() }) + ")." + c.Method.Name()
			r := x.ruleForName(full)
			return r != nil && r.NoEffect
		}
		return con.NoEffect && len(con.Requires) == 0
	}
	if _, ok := c.Value.(*ssa.Builtin); ok {
		return false
	}
	fn := c.StaticCallee()
	if fn == nil {
		return false
	}
	if con := x.contractFor(fn); con != nil {
		return con.NoEffect && len(con.Requires) == 0 && !con.Inline
	}
	if r := x.ruleFor(fn); r != nil && r.NoEffect && !isGalaxy(fn) {
		return true
	}
	return false
}
