package main

// Symbolic state: values, locations, heaps, script.

import (
	"fmt"
	"go/types"
	"strings"

	"golang.org/x/tools/go/ssa"
)

type LocKind int

const (
	LRef    LocKind = iota // pointer to a whole heap object (struct / array / boxed value) at Ref term
	LField                 // field of the object designated by Parent
	LElem                  // element Idx of backing array Arr (element heap E$T)
	LCell                  // local cell (address-taken local that is not a struct/array)
	LGlobal                // package-level variable
	LArrIdx                // element of an array value stored at Parent (array by value)
)

type Loc struct {
	Kind   LocKind
	Ref    string     // LRef: ref term
	Elem   types.Type // type of the designated object
	Parent *Loc       // LField, LArrIdx
	Field  int        // LField
	Arr    string     // LElem: slice term whose element Idx is designated
	Idx    string     // LElem / LArrIdx: index term
	Cell   int        // LCell id
	Global string     // LGlobal heap name
	Src    ssa.Value  // LCell with Cell == -1 (write analysis): the Alloc of a variable declared inside the analysed region
}

type Closure struct {
	Fn       *ssa.Function
	Bindings []Val
}

type RangeIter struct {
	ID     int
	Map    Val
	IsStr  bool
	KeyTy  types.Type
	ValTy  types.Type
	MapTy  types.Type
	Guard  *GuardInfo
}

type GuardInfo struct {
	Lock     string // lock id term
	Desc     string
	Tags     []string
	FreshRef string // reference of the object holding the guarded field (no lock needed if allocated by this call)
}

// Val is a symbolic value.
type Val struct {
	T     string     // SMT term (scalars, datatypes, refs)
	Ty    types.Type // Go type; nil for math values
	M     *MTy       // math type when Ty == nil
	Loc   *Loc       // pointer values: static location information
	Clo   *Closure
	Tup   []Val
	It    *RangeIter
	Guard *GuardInfo // value was loaded from a guarded field (maps, slices)
	Inner *Val       // interface values built by MakeInterface: the boxed value
	Hi    int        // known bits: value < 2^Hi (0 = unknown)
	Lo    int        // known bits: value is a multiple of 2^Lo
}

// MTy: mathematical (spec-only) types
type MTy struct {
	Kind string // "int", "bool", "set", "map", "str"
	K, V *STy
}

type STy struct {
	G types.Type
	M *MTy
}

type script struct {
	parent *script
	lines  []string
}

type Frame struct {
	fn       *ssa.Function
	env      map[ssa.Value]Val
	defers   []deferred
	cont     func(st *State, results []Val)
	depth    int
	callPath string // "" for the function under verification, else "call:callee#n/..."
	loops    map[*ssa.BasicBlock]*loopCtx
	id       int
	callOrd  map[string]int
	isTop    bool
}

type deferred struct {
	call *ssa.CallCommon
	args []Val
	fnv  Val
	pos  ssa.Instruction
}

type loopCtx struct {
	key      string
	measure  string // value of the decreases expression at loop head
	hasDec   bool
	allocAt  string
	entrySt  map[string]string
}

type State struct {
	frames   []*Frame
	heaps    map[string]string // heap name -> current version term
	cells    map[int]Val
	iters    map[int]string // range iterator id -> visited-set term
	declared map[string]bool // heap entry versions declared on this path
	sc       *script
	steps    int
	epoch    int
	dead     bool
	pcDesc   []string // human-readable branch trail
}

func (s *State) top() *Frame { return s.frames[len(s.frames)-1] }

func (s *State) fork() *State {
	n := &State{heaps: make(map[string]string, len(s.heaps)), cells: make(map[int]Val, len(s.cells)),
		iters: make(map[int]string, len(s.iters)), steps: s.steps, epoch: s.epoch, declared: make(map[string]bool, len(s.declared))}
	for k, v := range s.declared {
		n.declared[k] = v
	}
	for k, v := range s.heaps {
		n.heaps[k] = v
	}
	for k, v := range s.cells {
		n.cells[k] = v
	}
	for k, v := range s.iters {
		n.iters[k] = v
	}
	n.frames = make([]*Frame, len(s.frames))
	for i, f := range s.frames {
		nf := *f
		nf.env = make(map[ssa.Value]Val, len(f.env)+16)
		for k, v := range f.env {
			nf.env[k] = v
		}
		nf.defers = append([]deferred(nil), f.defers...)
		nf.loops = make(map[*ssa.BasicBlock]*loopCtx, len(f.loops))
		for k, v := range f.loops {
			nf.loops[k] = v
		}
		nf.callOrd = make(map[string]int, len(f.callOrd))
		for k, v := range f.callOrd {
			nf.callOrd[k] = v
		}
		n.frames[i] = &nf
	}
	n.sc = &script{parent: s.sc}
	s.sc = &script{parent: s.sc}
	n.pcDesc = append([]string(nil), s.pcDesc...)
	return n
}

func (s *State) emit(line string) { s.sc.lines = append(s.sc.lines, line) }

func (s *State) assume(t string) {
	if t == "true" {
		return
	}
	s.emit("(assert " + t + ")")
}

func (s *State) scriptText() string {
	var chain []*script
	for p := s.sc; p != nil; p = p.parent {
		chain = append(chain, p)
	}
	var sb strings.Builder
	for i := len(chain) - 1; i >= 0; i-- {
		for _, l := range chain[i].lines {
			sb.WriteString(l)
			sb.WriteByte('\n')
		}
	}
	return sb.String()
}

// snapshot of heaps (for old())
func (s *State) heapSnapshot() map[string]string {
	m := make(map[string]string, len(s.heaps)+1)
	m["$epoch"] = fmt.Sprint(s.epoch)
	for k, v := range s.heaps {
		m[k] = v
	}
	return m
}

func (v Val) isPtr() bool { return v.Loc != nil }

func (l *Loc) String() string {
	switch l.Kind {
	case LRef:
		return "ref(" + l.Ref + ")"
	case LField:
		return l.Parent.String() + fmt.Sprintf(".#%d", l.Field)
	case LElem:
		return "elem(" + l.Arr + "," + l.Idx + ")"
	case LCell:
		return fmt.Sprintf("cell%d", l.Cell)
	case LGlobal:
		return l.Global
	case LArrIdx:
		return l.Parent.String() + "[" + l.Idx + "]"
	}
	return "?"
}
