package main

// Block entry: phis, loop cutting by invariants, write-set analysis.

import (
	"fmt"
	"os"
	"strings"
	"go/token"
	"go/types"
	"sort"

	"golang.org/x/tools/go/ssa"
)

type loopInfo struct {
	header *ssa.BasicBlock
	body   map[*ssa.BasicBlock]bool
	ord    int
}

type fnInfo struct {
	loops    map[*ssa.BasicBlock]*loopInfo
	callOrd  map[ssa.Instruction]string // static call ordinal label "callee#n"
	names    map[string][]ssa.Value     // source name -> SSA values carrying it
	valOrder map[ssa.Value]int
}

func (x *Exec) info(fn *ssa.Function) *fnInfo {
	if fi, ok := x.L.fnInfos[fn]; ok {
		return fi
	}
	fi := &fnInfo{loops: map[*ssa.BasicBlock]*loopInfo{}, callOrd: map[ssa.Instruction]string{}, names: map[string][]ssa.Value{}, valOrder: map[ssa.Value]int{}}
	x.L.fnInfos[fn] = fi
	// loops
	for _, b := range fn.Blocks {
		for _, p := range b.Preds {
			if b.Dominates(p) {
				li := fi.loops[b]
				if li == nil {
					li = &loopInfo{header: b, body: map[*ssa.BasicBlock]bool{b: true}}
					fi.loops[b] = li
				}
				// walk back from p
				work := []*ssa.BasicBlock{p}
				for len(work) > 0 {
					n := work[len(work)-1]
					work = work[:len(work)-1]
					if li.body[n] {
						continue
					}
					li.body[n] = true
					work = append(work, n.Preds...)
				}
			}
		}
	}
	var hs []*ssa.BasicBlock
	for h := range fi.loops {
		hs = append(hs, h)
	}
	sort.Slice(hs, func(i, j int) bool { return hs[i].Index < hs[j].Index })
	for i, h := range hs {
		fi.loops[h].ord = i
	}
	// call ordinals and names
	cnt := map[string]int{}
	n := 0
	for _, p := range fn.Params {
		fi.names[p.Name()] = append(fi.names[p.Name()], p)
		fi.valOrder[p] = n
		n++
	}
	for _, fv := range fn.FreeVars {
		fi.names[fv.Name()] = append(fi.names[fv.Name()], fv)
		fi.valOrder[fv] = n
		n++
	}
	for _, b := range fn.Blocks {
		for _, ins := range b.Instrs {
			if v, ok := ins.(ssa.Value); ok {
				fi.valOrder[v] = n
				n++
			}
			switch t := ins.(type) {
			case *ssa.Call:
				nm := calleeShortName(&t.Call)
				fi.callOrd[ins] = fmt.Sprintf("%s#%d", nm, cnt[nm])
				cnt[nm]++
			case *ssa.Defer:
				nm := calleeShortName(&t.Call)
				fi.callOrd[ins] = fmt.Sprintf("%s#%d", nm, cnt[nm])
				cnt[nm]++
			case *ssa.Go:
				nm := calleeShortName(&t.Call)
				fi.callOrd[ins] = fmt.Sprintf("%s#%d", nm, cnt[nm])
				cnt[nm]++
			case *ssa.Phi:
				if t.Comment != "" {
					fi.names[t.Comment] = append(fi.names[t.Comment], t)
				}
			case *ssa.Alloc:
				if t.Comment != "" {
					fi.names[t.Comment] = append(fi.names[t.Comment], t)
				}
			case *ssa.DebugRef:
				if name := debugName(t); name != "" && !t.IsAddr {
					fi.names[name] = append(fi.names[name], t.X)
				}
			}
		}
	}
	return fi
}

func debugName(d *ssa.DebugRef) string {
	if id, ok := d.Expr.(*astIdent); ok {
		return id.Name
	}
	return ""
}

func calleeShortName(c *ssa.CallCommon) string {
	if c.IsInvoke() {
		return c.Method.Name()
	}
	if f := c.StaticCallee(); f != nil {
		return f.Name()
	}
	if b, ok := c.Value.(*ssa.Builtin); ok {
		return b.Name()
	}
	return "dyn"
}

func (x *Exec) lookupNameIn(st *State, frame int, name string) (Val, bool) {
	sub := &State{frames: st.frames[frame : frame+1], heaps: st.heaps, cells: st.cells, iters: st.iters, declared: st.declared, sc: st.sc, epoch: st.epoch}
	defer func() { recover() }()
	return x.lookupName(sub, name, nil)
}

// lookupName resolves a source-level name in the frames of the state (innermost first).
func (x *Exec) lookupName(st *State, name string, hdr *ssa.BasicBlock) (Val, bool) {
	start := len(st.frames) - 1
	// outer_<name>: skip the innermost frame (names of the caller of an inlined helper)
	for strings.HasPrefix(name, "outer_") && start > 0 {
		name = name[6:]
		start--
	}
	if name == "idx" && start < len(st.frames)-1 {
		// completed iterations of the innermost range loop of that outer frame that is being executed
		f := st.frames[start]
		best := -1
		var bv Val
		for v, val := range f.env {
			if ph, ok := v.(*ssa.Phi); ok && ph.Comment == "rangeindex" {
				if o := x.info(f.fn).valOrder[v]; o > best {
					best, bv = o, val
				}
			}
		}
		if best >= 0 {
			return mkInt("(+ " + bv.T + " 1)"), true
		}
	}
	for i := start; i >= 0; i-- {
		f := st.frames[i]
		if f.fn == nil {
			continue
		}
		fi := x.info(f.fn)
		vals := fi.names[name]
		var best ssa.Value
		bestOrd := -1
		// address-taken variables live in a cell: the cell is the variable, DebugRef'd values of
		// individual assignments are not
		hasCell := false
		for _, v := range vals {
			if val, ok := f.env[v]; ok && val.Loc != nil && val.Loc.Kind == LCell {
				hasCell = true
			}
		}
		for _, v := range vals {
			val, ok := f.env[v]
			if !ok {
				continue
			}
			if hasCell && !(val.Loc != nil && val.Loc.Kind == LCell) {
				continue
			}
			o := fi.valOrder[v]
			if ph, ok := v.(*ssa.Phi); ok && hdr != nil && ph.Block() == hdr && i == len(st.frames)-1 {
				o = 1 << 30
			}
			if o > bestOrd {
				best, bestOrd = v, o
			}
		}
		if best != nil {
			val := f.env[best]
			if al, ok := best.(*ssa.Alloc); ok && val.Loc != nil {
				_ = al
				return x.load(st, val.Loc), true
			}
			if _, ok := best.(*ssa.FreeVar); ok && val.Loc != nil && val.Loc.Kind == LCell {
				return x.load(st, val.Loc), true
			}
			return val, true
		}
	}
	return Val{}, false
}

func (x *Exec) evalPhis(st *State, b, from *ssa.BasicBlock) {
	f := st.top()
	if from == nil {
		return
	}
	edge := -1
	for i, p := range b.Preds {
		if p == from {
			edge = i
			break
		}
	}
	if edge < 0 {
		x.unsup("phi edge not found")
	}
	var phis []*ssa.Phi
	var vals []Val
	for _, ins := range b.Instrs {
		ph, ok := ins.(*ssa.Phi)
		if !ok {
			break
		}
		phis = append(phis, ph)
		vals = append(vals, x.operand(st, ph.Edges[edge]))
	}
	for i, ph := range phis {
		f.env[ph] = vals[i]
	}
}

func (x *Exec) loopKey(f *Frame, li *loopInfo) string {
	return fmt.Sprintf("%s%d", f.callPath, li.ord)
}

// loopSpecFor finds the invariants for a loop of the current (possibly inlined) frame.
func (x *Exec) loopSpecFor(f *Frame, li *loopInfo) *LoopSpec {
	var own, callee *LoopSpec
	if x.curCon != nil {
		own = x.curCon.Loops[x.loopKey(f, li)]
	}
	// invariants / measure given on the inlined function's own contract
	if !f.isTop {
		if con := x.contractFor(f.fn); con != nil {
			callee = con.Loops[fmt.Sprint(li.ord)]
		}
	}
	if own == nil {
		return callee
	}
	if callee == nil {
		return own
	}
	merged := &LoopSpec{Inv: append(append([]Clause{}, own.Inv...), callee.Inv...), Decreases: own.Decreases, DecSrc: own.DecSrc}
	if merged.Decreases == nil {
		merged.Decreases, merged.DecSrc = callee.Decreases, callee.DecSrc
	}
	return merged
}

// enterBlock handles phis and loop cutting. Returns false if the path ends here.
func (x *Exec) enterBlock(st *State, b, from *ssa.BasicBlock) bool {
	f := st.top()
	fi := x.info(f.fn)
	li := fi.loops[b]
	if li == nil {
		x.evalPhis(st, b, from)
		return true
	}
	ls := x.loopSpecFor(f, li)
	lkey := "L" + x.loopKey(f, li)
	x.evalPhis(st, b, from)
	env := x.loopEnv(st, b)
	if lc, ok := f.loops[b]; ok && from != nil && li.body[from] {
		// back edge: re-establish the invariant, check the measure, end of path
		if ls != nil {
			for i, c := range ls.Inv {
				x.oblige(st, "inv-step", fmt.Sprintf("%s:%s", lkey, clauseLabel(c, i)), x.evalClause(env, c, "loop invariant "+lkey), c.Tags, "loop invariant preserved: "+c.Src)
			}
		}
		for i, a := range x.autoInvariants(st, b, lc) {
			x.oblige(st, "inv-step", fmt.Sprintf("%s:auto%d", lkey, i), a, nil, "inferred loop invariant preserved")
		}
		if lc.hasDec {
			env.what = "decreases " + lkey
			m := x.specTerm(env, ls.Decreases)
			x.oblige(st, "decreases", lkey, fmt.Sprintf("(and (>= %s 0) (< %s %s))", lc.measure, m, lc.measure), x.decTags(), "loop measure decreases and is bounded below: "+ls.DecSrc)
		}
		return false
	}
	// loop entry
	if os.Getenv("GVERIF_DEBUG") != "" {
		pos := x.L.fset.Position(b.Instrs[0].Pos())
		for _, in := range b.Instrs {
			if in.Pos().IsValid() {
				pos = x.L.fset.Position(in.Pos())
				break
			}
		}
		kind := "for"
		if ph, _ := rangeIndexBound(b); ph != nil {
			kind = "range-slice"
		}
		for _, in := range b.Instrs {
			if _, ok := in.(*ssa.Next); ok {
				kind = "range-map"
			}
		}
		fmt.Fprintf(os.Stderr, "loop %s %s %s at %s:%d\n", x.curKey, lkey, kind, shortFile(pos.Filename), pos.Line)
	}
	lc := &loopCtx{key: lkey}
	lc.allocAt = x.heap(st, "$alloc", "Int")
	if ls != nil {
		for i, c := range ls.Inv {
			x.oblige(st, "inv-entry", fmt.Sprintf("%s:%s", lkey, clauseLabel(c, i)), x.evalClause(env, c, "loop invariant "+lkey), c.Tags, "loop invariant holds on entry: "+c.Src)
		}
	}
	for i, a := range x.autoInvariants(st, b, lc) {
		x.oblige(st, "inv-entry", fmt.Sprintf("%s:auto%d", lkey, i), a, nil, "inferred loop invariant holds on entry")
	}
	// havoc
	ws := newWriteSet()
	var blocks []*ssa.BasicBlock
	for blk := range li.body {
		blocks = append(blocks, blk)
	}
	sort.Slice(blocks, func(i, j int) bool { return blocks[i].Index < blocks[j].Index })
	ws.rootRegion = blocks
	// values defined inside the region (the header phis were just evaluated for the entry edge)
	// change from iteration to iteration: the analysis may only rely on values fixed before the loop
	outside := make(map[ssa.Value]Val, len(f.env))
	for k, v := range f.env {
		if ins, ok := k.(ssa.Instruction); ok && ins.Block() != nil && li.body[ins.Block()] && ins.Parent() == f.fn {
			continue
		}
		outside[k] = v
	}
	x.collectWrites(st, f.fn, blocks, outside, ws, 0, map[*ssa.Function]bool{})
	ws.resolveCellMaps(st)
	if ws.all {
		x.gap(fmt.Sprintf("loop %s: everything is havoced at the loop head (%s)", lkey, ws.why))
		x.havocAll(st)
	} else {
		var hn []string
		for n := range ws.heaps {
			hn = append(hn, n)
		}
		sort.Strings(hn)
		if os.Getenv("GVERIF_DEBUG") != "" {
			for _, n := range hn {
				fmt.Fprintf(os.Stderr, "  writes %s %s: total=%d exact=%d fresh=%v efresh=%v point=%d\n", lkey, n, ws.total[n], ws.exact[n], ws.fresh[n], ws.efresh[n], len(ws.point[n]))
			}
		}
		for _, n := range hn {
			if n == "$alloc" || ws.total[n] != ws.exact[n] || !(strings.HasPrefix(n, "F$") || strings.HasPrefix(n, "E$") || strings.HasPrefix(n, "P$") || strings.HasPrefix(n, "MD$") || strings.HasPrefix(n, "MV$")) {
				x.havocHeap(st, n, ws.heaps[n])
				continue
			}
			// every write in the loop goes to an object allocated inside the loop or to a reference
			// that is fixed before the loop: all other cells keep their value (inferred frame)
			old := x.heap(st, n, ws.heaps[n])
			cur := old
			if ws.fresh[n] || ws.efresh[n] {
				bound := lc.allocAt
				if ws.efresh[n] {
					// some writes go to objects allocated since the function was entered (not
					// necessarily inside the loop): only objects that existed on entry are framed
					bound = x.baseEnv(st).withOld(func() Val { return mkInt(x.heap(st, "$alloc", "Int")) }).T
				}
				cur = x.havocHeap(st, n, ws.heaps[n])
				st.assume(fmt.Sprintf("(forall ((r Int)) (! (=> (< r %s) (= (select %s r) (select %s r))) :pattern ((select %s r))))", bound, cur, old, cur))
			}
			elemSort := strings.TrimSuffix(strings.TrimPrefix(ws.heaps[n], "(Array Int "), ")")
			for _, ref := range ws.point[n] {
				fv := x.freshConst(st, "hv", elemSort)
				if et, ok := x.heapElem[n]; ok && !strings.HasPrefix(n, "E$") && !strings.HasPrefix(n, "M") {
					x.assumeWF(st, fv, et)
				}
				if et, ok := x.heapElem[n]; ok && strings.HasPrefix(n, "MV$") {
					// typing of the havoced map object: every value is a well-formed value of its type
					cell := fmt.Sprintf("(select %s k)", fv)
					if wf := x.wfTerm(st, cell, et, 2); wf != "true" {
						st.assume(fmt.Sprintf("(forall ((k %s)) (! %s :pattern (%s)))", x.heapKey[n], wf, cell))
					}
				}
				if et, ok := x.heapElem[n]; ok && strings.HasPrefix(n, "E$") {
					cell := fmt.Sprintf("(select %s i)", fv)
					if wf := x.wfTerm(st, cell, et, 2); wf != "true" {
						st.assume(fmt.Sprintf("(forall ((i Int)) (! %s :pattern (%s)))", wf, cell))
					}
				}
				cur = sto(cur, ref, fv)
			}
			if len(ws.point[n]) > 0 {
				x.setHeap(st, n, ws.heaps[n], cur)
			}
		}
	}
	var cs []int
	for c := range ws.cells {
		cs = append(cs, c)
	}
	sort.Ints(cs)
	for _, c := range cs {
		old := st.cells[c]
		if old.Ty == nil {
			continue
		}
		nv := x.freshConst(st, "cell", x.ctx.sortOf(old.Ty))
		x.assumeWF(st, nv, old.Ty)
		st.cells[c] = x.valFromTerm(nv, old.Ty)
	}
	for it := range ws.iters {
		if old, ok := st.iters[it]; ok {
			_ = old
			// sort is recovered from the iterator; find it through the header's Next instruction
			st.iters[it] = x.freshConst(st, "visited", x.iterSort(st, b, it))
		}
	}
	for _, ins := range b.Instrs {
		ph, ok := ins.(*ssa.Phi)
		if !ok {
			break
		}
		old := f.env[ph]
		if old.Clo != nil || old.It != nil || (old.Loc != nil && old.Loc.Kind != LRef) {
			x.unsup("loop-carried closure/iterator/interior pointer in phi %s", ph.Name())
		}
		nv := x.freshConst(st, "phi_"+sanitize(ph.Comment), x.ctx.sortOf(ph.Type()))
		x.assumeWF(st, nv, ph.Type())
		f.env[ph] = x.valFromTerm(nv, ph.Type())
	}
	// assume invariants
	env = x.loopEnv(st, b)
	if ls != nil {
		for _, c := range ls.Inv {
			st.assume(x.evalClause(env, c, "loop invariant "+lkey))
		}
	}
	for _, a := range x.autoInvariants(st, b, lc) {
		st.assume(a)
	}
	if ls != nil && ls.Decreases != nil {
		env.what = "decreases " + lkey
		lc.measure = x.specTerm(env, ls.Decreases)
		lc.hasDec = true
	} else if !x.terminatesByConstruction(b, li) {
		x.gap(fmt.Sprintf("loop %s has no decreases clause: termination not proved", lkey))
	}
	f.loops[b] = lc
	st.pcDesc = append(st.pcDesc, "loop "+lkey)
	return true
}

func sanitize(s string) string {
	if s == "" {
		return "v"
	}
	return mangle(s)
}

func clauseLabel(c Clause, i int) string {
	if c.Name != "" {
		return c.Name
	}
	return fmt.Sprint(i)
}

func (x *Exec) iterSort(st *State, b *ssa.BasicBlock, id int) string {
	f := st.top()
	for _, v := range f.env {
		if v.It != nil && v.It.ID == id {
			return fmt.Sprintf("(Array %s Bool)", x.ctx.sortOf(v.It.KeyTy))
		}
	}
	for i := len(st.frames) - 1; i >= 0; i-- {
		for _, v := range st.frames[i].env {
			if v.It != nil && v.It.ID == id {
				return fmt.Sprintf("(Array %s Bool)", x.ctx.sortOf(v.It.KeyTy))
			}
		}
	}
	x.unsup("iterator sort")
	return ""
}

// rangeIndexBound finds the phi and bound of a `for i := range slice` loop header.
func rangeIndexBound(b *ssa.BasicBlock) (*ssa.Phi, ssa.Value) {
	for i, ins := range b.Instrs {
		ph, ok := ins.(*ssa.Phi)
		if !ok {
			break
		}
		if ph.Comment != "rangeindex" {
			continue
		}
		for _, in2 := range b.Instrs[i+1:] {
			if cmp, ok := in2.(*ssa.BinOp); ok && cmp.Op == token.LSS {
				if add, ok := cmp.X.(*ssa.BinOp); ok && add.Op == token.ADD && add.X == ph {
					return ph, cmp.Y
				}
			}
		}
	}
	return nil, nil
}

func (x *Exec) terminatesByConstruction(b *ssa.BasicBlock, li *loopInfo) bool {
	if ph, _ := rangeIndexBound(b); ph != nil {
		return true
	}
	for _, ins := range b.Instrs {
		if nx, ok := ins.(*ssa.Next); ok {
			// map range: finite domain; inserting into the ranged map inside the loop is not excluded
			// syntactically here, it is excluded by the map-range model (new keys may be produced),
			// so only claim termination if the body has no MapUpdate on a map of the same type.
			rg, ok := nx.Iter.(*ssa.Range)
			if !ok {
				return false
			}
			for blk := range li.body {
				for _, in2 := range blk.Instrs {
					if mu, ok := in2.(*ssa.MapUpdate); ok && types.Identical(mu.Map.Type(), rg.X.Type()) {
						return false
					}
				}
			}
			return true
		}
	}
	return false
}

func (x *Exec) autoInvariants(st *State, b *ssa.BasicBlock, lc *loopCtx) []string {
	f := st.top()
	var out []string
	out = append(out, fmt.Sprintf("(>= %s %s)", x.heap(st, "$alloc", "Int"), lc.allocAt))
	if ph, bound := rangeIndexBound(b); ph != nil {
		p := f.env[ph].T
		n := x.operand(st, bound).T
		out = append(out, fmt.Sprintf("(and (<= (- 1) %s) (or (= %s (- 1)) (< %s %s)))", p, p, p, n))
	}
	// a variable that starts nil and only ever receives objects allocated inside the loop (append
	// chains, fresh results) is nil or younger than the loop: it cannot alias anything older
	if li := x.info(f.fn).loops[b]; li != nil {
		var blocks []*ssa.BasicBlock
		for blk := range li.body {
			blocks = append(blocks, blk)
		}
		for _, ins := range b.Instrs {
			ph, ok := ins.(*ssa.Phi)
			if !ok {
				break
			}
			v, have := f.env[ph]
			if !have || v.T == "" || !x.regionFresh(ph, blocks, nil) {
				continue
			}
			switch ph.Type().Underlying().(type) {
			case *types.Slice:
				out = append(out, fmt.Sprintf("(or (= (s_arr %s) 0) (>= (s_arr %s) %s))", v.T, v.T, lc.allocAt))
			case *types.Map, *types.Pointer:
				out = append(out, fmt.Sprintf("(or (= %s 0) (>= %s %s))", v.T, v.T, lc.allocAt))
			}
		}
	}
	return out
}

// loopEnv builds the spec environment for invariants of the loop with header b.
func (x *Exec) loopEnv(st *State, b *ssa.BasicBlock) *SpecEnv {
	f := st.top()
	env := x.baseEnv(st)
	env.lookup = func(name string) (Val, bool) {
		switch name {
		case "idx":
			if ph, _ := rangeIndexBound(b); ph != nil {
				return mkInt("(+ " + f.env[ph].T + " 1)"), true
			}
			// not a range loop itself: the enclosing range loop of the same function
			best := -1
			var bv Val
			for v, val := range f.env {
				if ph, ok := v.(*ssa.Phi); ok && ph.Comment == "rangeindex" {
					if o := x.info(f.fn).valOrder[v]; o > best {
						best, bv = o, val
					}
				}
			}
			if best >= 0 {
				return mkInt("(+ " + bv.T + " 1)"), true
			}
		case "visited":
			for _, ins := range b.Instrs {
				if nx, ok := ins.(*ssa.Next); ok {
					if itv, ok := f.env[nx.Iter]; ok && itv.It != nil {
						return Val{T: st.iters[itv.It.ID], M: &MTy{Kind: "set", K: &STy{G: itv.It.KeyTy}}}, true
					}
				}
			}
		}
		return x.lookupName(st, name, b)
	}
	return env
}

// baseEnv: parameters of the function under verification, old = entry state.
func (x *Exec) baseEnv(st *State) *SpecEnv {
	env := &SpecEnv{x: x, st: st, oldHeaps: map[string]string{}, vars: map[string]Val{}, oldVars: x.entryVars, what: x.curKey}
	if x.curPkg != nil {
		env.pkg = x.curPkg.Pkg
	}
	for k, v := range x.entryVars {
		env.vars[k] = v
	}
	env.lookup = func(name string) (Val, bool) { return x.lookupName(st, name, nil) }
	return env
}

func (x *Exec) evalClause(env *SpecEnv, c Clause, what string) string {
	env.what = what + ": " + c.Src
	return x.specTerm(env, c.E)
}

func (x *Exec) specTerm(env *SpecEnv, e Expr) string {
	v := env.eval(e)
	return x.termOf(env.st, v)
}

// ---------------------------------------------------------------------------------------------
// write sets

type writeSet struct {
	heaps map[string]string
	cells map[int]bool
	iters map[int]bool
	all   bool
	total map[string]int      // number of write sites per heap
	exact map[string]int      // of those: writes to objects allocated inside the analysed code, or pointwise
	point map[string][]string // pointwise writes: heap -> reference terms (defined before the loop)
	fresh map[string]bool     // heap has writes to fresh objects
	inFresh bool              // analysing a store whose target is a fresh object
	rootRegion []*ssa.BasicBlock // the blocks of the loop whose write set is computed
	efresh  map[string]bool   // heap has writes to objects allocated since the function was entered (weaker frame)
	inEFresh bool
	why     string
	cellMaps []cellMapWrite   // map updates through a variable (cell); resolved after the analysis
	efreshVals map[ssa.Value]bool // parameters bound to objects allocated since the function was entered
	freshVals map[ssa.Value]bool // parameters of analysed callees that are bound to objects allocated in the region
}

type cellMapWrite struct {
	cell           int
	dn, ds, vn, vs string
}

// resolveCellMaps: a map reached through a variable that the loop never assigns is one fixed
// map object (pointwise havoc); otherwise the whole map heap is written.
func (ws *writeSet) resolveCellMaps(st *State) {
	for _, cm := range ws.cellMaps {
		if v, ok := st.cells[cm.cell]; ok && !ws.cells[cm.cell] && v.T != "" {
			ws.wPoint(cm.dn, cm.ds, v.T)
			ws.wPoint(cm.vn, cm.vs, v.T)
		} else {
			ws.w(cm.dn, cm.ds)
			ws.w(cm.vn, cm.vs)
		}
	}
	ws.cellMaps = nil
}

func newWriteSet() *writeSet {
	return &writeSet{efreshVals: map[ssa.Value]bool{}, freshVals: map[ssa.Value]bool{}, heaps: map[string]string{}, cells: map[int]bool{}, iters: map[int]bool{}, total: map[string]int{}, exact: map[string]int{}, point: map[string][]string{}, fresh: map[string]bool{}, efresh: map[string]bool{}}
}

// w records a write to a heap component.
func (ws *writeSet) w(name, sort string) {
	ws.heaps[name] = sort
	ws.total[name]++
	if ws.inFresh {
		ws.exact[name]++
		ws.fresh[name] = true
	} else if ws.inEFresh {
		ws.exact[name]++
		ws.efresh[name] = true
	}
}

func (ws *writeSet) wPoint(name, sort, ref string) {
	ws.heaps[name] = sort
	ws.total[name]++
	ws.exact[name]++
	ws.point[name] = append(ws.point[name], ref)
}

func (x *Exec) addLocWrites(l *Loc, ws *writeSet) {
	switch l.Kind {
	case LCell:
		ws.cells[l.Cell] = true
	case LGlobal:
		ws.w(l.Global, x.ctx.sortOf(l.Elem))
	case LRef:
		if stt, ok := l.Elem.Underlying().(*types.Struct); ok && l.Ref != "" {
			// a whole-struct store through a pointer that is fixed before the region: pointwise
			for i := 0; i < stt.NumFields(); i++ {
				hn, hs := x.fieldHeap(l.Elem, i)
				ws.wPoint(hn, hs, l.Ref)
			}
			return
		}
		x.addTypeWrites(l.Elem, ws)
	case LField:
		root := l
		for root.Parent != nil && root.Parent.Kind != LRef {
			root = root.Parent
		}
		if root.Parent != nil && root.Kind == LField {
			hn, hs := x.fieldHeap(root.Parent.Elem, root.Field)
			ws.w(hn, hs)
		} else {
			x.addLocWrites(root, ws)
		}
	case LElem:
		hn, hs := x.elemHeap(l.Elem)
		ws.w(hn, hs)
	case LArrIdx:
		x.addLocWrites(l.Parent, ws)
	}
}

// addTypeWrites: a store through a pointer to a whole object of type t.
func (x *Exec) addTypeWrites(t types.Type, ws *writeSet) {
	if stt, ok := t.Underlying().(*types.Struct); ok {
		for i := 0; i < stt.NumFields(); i++ {
			hn, hs := x.fieldHeap(t, i)
			ws.w(hn, hs)
		}
		return
	}
	if at, ok := t.Underlying().(*types.Array); ok {
		hn, hs := x.elemHeap(at.Elem())
		ws.w(hn, hs)
		return
	}
	hn, hs := x.boxHeap(t)
	ws.w(hn, hs)
}

func (x *Exec) staticAddrWrites(addr ssa.Value, ws *writeSet) {
	switch a := addr.(type) {
	case *ssa.FieldAddr:
		root := a
		for {
			if p, ok := root.X.(*ssa.FieldAddr); ok {
				root = p
				continue
			}
			break
		}
		pt := root.X.Type().Underlying().(*types.Pointer).Elem()
		hn, hs := x.fieldHeap(pt, root.Field)
		ws.w(hn, hs)
		// the root may itself be an address-taken local struct: same heap
	case *ssa.IndexAddr:
		switch u := a.X.Type().Underlying().(type) {
		case *types.Slice:
			hn, hs := x.elemHeap(u.Elem())
			ws.w(hn, hs)
		case *types.Pointer:
			at := u.Elem().Underlying().(*types.Array)
			hn, hs := x.elemHeap(at.Elem())
			ws.w(hn, hs)
		}
	case *ssa.Alloc:
		elem := a.Type().(*types.Pointer).Elem()
		if isStruct(elem) || isArray(elem) {
			x.addTypeWrites(elem, ws)
		}
	case *ssa.Global:
		ws.w("GV$"+a.Pkg.Pkg.Path()+"."+a.Name(), x.ctx.sortOf(a.Type().(*types.Pointer).Elem()))
	default:
		pt, ok := addr.Type().Underlying().(*types.Pointer)
		if !ok {
			ws.all = true
			return
		}
		x.addTypeWrites(pt.Elem(), ws)
	}
}

func (x *Exec) noteEscapingCells(v Val, ws *writeSet) {
	if v.Loc != nil && v.Loc.Kind == LCell {
		ws.cells[v.Loc.Cell] = true
	}
	if v.Clo != nil {
		for i, b := range v.Clo.Bindings {
			if b.Loc != nil && b.Loc.Kind == LCell && i < len(v.Clo.Fn.FreeVars) && !freeVarMayBeWritten(v.Clo.Fn, i) {
				continue // captured cell is only read by the closure
			}
			x.noteEscapingCells(b, ws)
		}
	}
}

// freeVarMayBeWritten: the closure stores to its i-th free variable or lets its address escape.
func freeVarMayBeWritten(fn *ssa.Function, i int) bool {
	fv := fn.FreeVars[i]
	refs := fv.Referrers()
	if refs == nil {
		return true
	}
	for _, r := range *refs {
		switch t := r.(type) {
		case *ssa.UnOp:
			// load
		case *ssa.Store:
			if t.Addr == fv {
				return true
			}
			return true // address stored somewhere
		case *ssa.DebugRef:
		default:
			return true
		}
	}
	return false
}

func (x *Exec) collectWrites(st *State, fn *ssa.Function, blocks []*ssa.BasicBlock, env map[ssa.Value]Val, ws *writeSet, depth int, seen map[*ssa.Function]bool) {
	if ws.all {
		return
	}
	for _, b := range blocks {
		for _, ins := range b.Instrs {
			switch t := ins.(type) {
			case *ssa.Alloc, *ssa.MakeMap, *ssa.MakeSlice, *ssa.MakeChan:
				ws.w("$alloc", "Int")
				ws.inFresh = true
				if a, ok := t.(*ssa.Alloc); ok {
					x.staticAddrWrites(a, ws)
				}
				if m, ok := t.(*ssa.MakeMap); ok {
					dn, ds, vn, vs := x.mapHeaps(m.Type().Underlying().(*types.Map))
					ws.w(dn, ds)
					ws.w(vn, vs)
				}
				if m, ok := t.(*ssa.MakeSlice); ok {
					hn, hs := x.elemHeap(m.Type().Underlying().(*types.Slice).Elem())
					ws.w(hn, hs)
				}
				ws.inFresh = false
			case *ssa.Convert:
				if _, ok := t.Type().Underlying().(*types.Slice); ok {
					// string -> []byte / []rune: a new array
					ws.w("$alloc", "Int")
					hn, hs := x.elemHeap(t.Type().Underlying().(*types.Slice).Elem())
					ws.inFresh = true
					ws.w(hn, hs)
					ws.inFresh = false
				}
			case *ssa.Store:
				if env != nil {
					if v, ok := env[t.Addr]; ok && v.Loc != nil {
						if l := v.Loc; l.Kind == LField && l.Parent != nil && l.Parent.Kind == LRef {
							hn, hs := x.fieldHeap(l.Parent.Elem, l.Field)
							ws.wPoint(hn, hs, l.Parent.Ref)
							continue
						}
						x.addLocWrites(v.Loc, ws)
						continue
					}
				}
				if env != nil {
					// address computed inside the loop from a base that is fixed before the loop
					if fa, ok := t.Addr.(*ssa.FieldAddr); ok {
						root := fa
						for {
							if p, ok := root.X.(*ssa.FieldAddr); ok {
								root = p
								continue
							}
							break
						}
						if bv, ok := env[root.X]; ok && bv.Loc != nil && bv.Loc.Kind == LRef {
							hn, hs := x.fieldHeap(bv.Loc.Elem, root.Field)
							ws.wPoint(hn, hs, bv.Loc.Ref)
							continue
						}
					}
				}
				if env != nil {
					// element of a slice value that is fixed before the loop: only that backing array changes
					if ia, ok := t.Addr.(*ssa.IndexAddr); ok {
						if sl, isSl := ia.X.Type().Underlying().(*types.Slice); isSl {
							if bv, ok := env[ia.X]; ok && bv.T != "" {
								hn, hs := x.elemHeap(sl.Elem())
								ws.wPoint(hn, hs, "(s_arr "+bv.T+")")
								continue
							}
						}
					}
				}
				if x.rootIsLocalAlloc(t.Addr, blocks, ws) {
					ws.inFresh = true
					x.staticAddrWrites(t.Addr, ws)
					ws.inFresh = false
					continue
				}
				x.staticAddrWrites(t.Addr, ws)
			case *ssa.MapUpdate:
				dn, ds, vn, vs := x.mapHeaps(t.Map.Type().Underlying().(*types.Map))
				if env != nil {
					// the map is a value fixed before the loop, or the content of a variable (cell)
					// that the loop does not assign: only that map object changes
					if mv, ok := env[t.Map]; ok && mv.T != "" {
						ws.wPoint(dn, ds, mv.T)
						ws.wPoint(vn, vs, mv.T)
						continue
					}
					if ld, ok := t.Map.(*ssa.UnOp); ok && ld.Op == token.MUL {
						if cv, ok := env[ld.X]; ok && cv.Loc != nil && cv.Loc.Kind == LCell && cv.Loc.Cell > 0 {
							ws.cellMaps = append(ws.cellMaps, cellMapWrite{cv.Loc.Cell, dn, ds, vn, vs})
							continue
						}
					}
				}
				if x.regionFresh(t.Map, blocks, ws) {
					// a map made inside the analysed region: only fresh map objects change
					ws.inFresh = true
					ws.w(dn, ds)
					ws.w(vn, vs)
					ws.inFresh = false
					continue
				}
				ws.w(dn, ds)
				ws.w(vn, vs)
			case *ssa.Next:
				if env != nil {
					if v, ok := env[t.Iter]; ok && v.It != nil {
						ws.iters[v.It.ID] = true
					}
				}
			case *ssa.MakeClosure:
				if env != nil {
					for bi, bnd := range t.Bindings {
						if v, ok := env[bnd]; ok {
							if fnc, isFn := t.Fn.(*ssa.Function); isFn && v.Loc != nil && v.Loc.Kind == LCell && bi < len(fnc.FreeVars) && !freeVarMayBeWritten(fnc, bi) {
								continue // the closure only reads this captured variable
							}
							x.noteEscapingCells(v, ws)
						}
					}
				}
			case *ssa.Call:
				x.callWrites(st, fn, blocks, &t.Call, env, ws, depth, seen)
			case *ssa.Defer:
				x.callWrites(st, fn, blocks, &t.Call, env, ws, depth, seen)
			case *ssa.Go:
				ws.all = true
			}
			if ws.all {
				return
			}
		}
	}
}

func (x *Exec) callWrites(st *State, caller *ssa.Function, region []*ssa.BasicBlock, c *ssa.CallCommon, env map[ssa.Value]Val, ws *writeSet, depth int, seen map[*ssa.Function]bool) {
	if env != nil {
		for _, a := range c.Args {
			if v, ok := env[a]; ok {
				x.noteEscapingCells(v, ws)
			}
		}
	}
	if b, ok := c.Value.(*ssa.Builtin); ok {
		switch b.Name() {
		case "append":
			sl := c.Args[0].Type().Underlying().(*types.Slice)
			hn, hs := x.elemHeap(sl.Elem())
			if x.regionFresh(c.Args[0], region, ws) {
				// the slice is nil or lives in an array allocated inside the region: whether the
				// element fits or a new array is allocated, only region-fresh arrays are written
				ws.inFresh = true
				ws.w(hn, hs)
				ws.inFresh = false
			} else if al := x.selfAppendCell(c.Args[0], env); al != nil {
				// a variable that starts nil (zero value) and is only ever assigned append(itself, ..)
				// or fresh objects: its arrays were allocated during this function
				ws.inEFresh = true
				ws.w(hn, hs)
				ws.inEFresh = false
			} else {
				ws.w(hn, hs)
			}
			ws.w("$alloc", "Int")
		case "copy":
			sl := c.Args[0].Type().Underlying().(*types.Slice)
			hn, hs := x.elemHeap(sl.Elem())
			ws.w(hn, hs)
		case "delete":
			dn, ds, vn, vs := x.mapHeaps(c.Args[0].Type().Underlying().(*types.Map))
			ws.w(dn, ds)
					ws.w(vn, vs)
		case "clear":
			ws.all = true
		}
		return
	}
	var callee *ssa.Function
	var con *Contract
	var rule *PkgRule
	var bindings []Val
	if c.IsInvoke() {
		con = x.contractForMethod(c)
		if con == nil {
			full := "(" + types.TypeString(c.Value.Type(), func(p *types.Package) string { return p.Path() }) + ")." + c.Method.Name()
			if r := x.ruleForName(full); r != nil && r.NoEffect {
				return
			}
		}
	} else {
		callee = c.StaticCallee()
		if env != nil {
			if v, ok := env[c.Value]; ok && v.Clo != nil {
				callee = v.Clo.Fn
				bindings = v.Clo.Bindings
				x.noteEscapingCells(v, ws)
			}
		}
		if callee == nil {
			switch cv := c.Value.(type) {
			case *ssa.MakeClosure:
				// closure created in the analysed region and called (func(){...}())
				callee = cv.Fn.(*ssa.Function)
				for _, b := range cv.Bindings {
					if env != nil {
						if bv, ok := env[b]; ok {
							bindings = append(bindings, bv)
							if bv.Loc != nil && bv.Loc.Kind == LCell && len(bindings)-1 < len(callee.FreeVars) && freeVarMayBeWritten(callee, len(bindings)-1) {
								x.noteEscapingCells(bv, ws)
							}
							continue
						}
					}
					bindings = append(bindings, Val{})
				}
			case *ssa.Call:
				// value returned by a call (defer p.lockPod(..)()): any closure the callee creates
				if inner := cv.Call.StaticCallee(); inner != nil && len(inner.Blocks) > 0 && isGalaxy(inner) && !seen[inner] {
					handled := false
					for _, b := range inner.Blocks {
						for _, ins := range b.Instrs {
							if mc, ok := ins.(*ssa.MakeClosure); ok {
								handled = true
								fnc := mc.Fn.(*ssa.Function)
								if !seen[fnc] && depth < x.maxDepth {
									seen[fnc] = true
									x.collectWrites(st, fnc, fnc.Blocks, map[ssa.Value]Val{}, ws, depth+1, seen)
									delete(seen, fnc)
								}
							}
						}
					}
					if handled {
						return
					}
				}
			}
		}
		if callee != nil {
			con = x.contractFor(callee)
			if con == nil {
				rule = x.ruleFor(callee)
			}
		}
	}
	if callee != nil && (callee.String() == "encoding/json.Unmarshal" || callee.String() == "sort.Sort") {
		// library models (see libraryModel): the pointee struct's fields / the slice's elements
		ws.w("$alloc", "Int")
		if len(c.Args) > 0 {
			arg := c.Args[len(c.Args)-1]
			if mi, ok := arg.(*ssa.MakeInterface); ok {
				if env != nil {
					if cv, ok := env[mi.X]; ok && cv.Loc != nil && cv.Loc.Kind == LCell {
						ws.cells[cv.Loc.Cell] = true
						return
					}
				}
				if pt, ok := mi.X.Type().Underlying().(*types.Pointer); ok {
					if x.rootIsLocalAlloc(mi.X, region, ws) || x.regionFresh(mi.X, region, ws) {
						ws.inFresh = true
						x.addTypeWrites(pt.Elem(), ws)
						ws.inFresh = false
						return
					}
					x.addTypeWrites(pt.Elem(), ws)
					return
				}
				if sl, ok := mi.X.Type().Underlying().(*types.Slice); ok {
					hn, hs := x.elemHeap(sl.Elem())
					ws.w(hn, hs)
					return
				}
			}
		}
		ws.all = true
		ws.why = "library model of " + callee.String() + " not applicable"
		return
	}
	if con != nil && !con.Inline {
		if con.NoEffect {
			return
		}
		if !con.ModStated {
			ws.all = true
			return
		}
		ws.w("$alloc", "Int")
		x.modifiesHeaps(con, callee, c, ws, env, region)
		return
	}
	if rule != nil && rule.NoEffect {
		return
	}
	if callee != nil && len(callee.Blocks) > 0 && x.inlinable(callee) && depth < x.maxDepth && !seen[callee] {
		seen[callee] = true
		// values flowing into the callee that are known here (closures, cell pointers, fixed refs)
		cenv := map[ssa.Value]Val{}
		for _, p := range callee.Params {
			// the freshness of a parameter is a fact of THIS call site
			delete(ws.freshVals, p)
			delete(ws.efreshVals, p)
		}
		for i, p := range callee.Params {
			if i < len(c.Args) && x.rootIsLocalAlloc(c.Args[i], region, ws) {
				if _, isAddr := c.Args[i].(*ssa.Alloc); isAddr || ws.freshVals[c.Args[i]] {
					ws.freshVals[p] = true
				}
			}
			if i < len(c.Args) && x.regionFresh(c.Args[i], region, ws) {
				ws.freshVals[p] = true
			} else if i < len(c.Args) && (ws.efreshVals[c.Args[i]] || x.fnFresh(c.Args[i], map[ssa.Value]bool{})) {
				ws.efreshVals[p] = true
			}
		}
		if env != nil {
			for i, p := range callee.Params {
				if i < len(c.Args) {
					if v, ok := env[c.Args[i]]; ok {
						cenv[p] = v
					} else if mc, ok := c.Args[i].(*ssa.MakeClosure); ok {
						// closure created inside the analysed region: bindings that are known
						var bs []Val
						complete := true
						for _, b := range mc.Bindings {
							if bv, ok := env[b]; ok {
								bs = append(bs, bv)
							} else if al, isAl := b.(*ssa.Alloc); isAl && !isStruct(al.Type().(*types.Pointer).Elem()) && !isArray(al.Type().(*types.Pointer).Elem()) {
								// a variable declared inside the analysed region: a fresh cell per iteration
								bs = append(bs, Val{Ty: al.Type(), Loc: &Loc{Kind: LCell, Cell: -1, Elem: al.Type().(*types.Pointer).Elem(), Src: al}})
							} else {
								bs = append(bs, Val{})
								complete = false
							}
						}
						_ = complete
						cenv[p] = Val{Ty: mc.Type(), Clo: &Closure{Fn: mc.Fn.(*ssa.Function), Bindings: bs}}
					}
				}
			}
		}
		for i, fv := range callee.FreeVars {
			if i < len(bindings) && (bindings[i].Loc != nil || bindings[i].Clo != nil || bindings[i].T != "") {
				cenv[fv] = bindings[i]
			}
		}
		x.collectWrites(st, callee, callee.Blocks, cenv, ws, depth+1, seen)
		for _, p := range callee.Params {
			delete(ws.freshVals, p)
			delete(ws.efreshVals, p)
		}
		delete(seen, callee)
		return
	}
	ws.all = true
	if callee != nil {
		ws.why = "call of " + callee.String()
	} else {
		ws.why = "dynamic or interface call " + calleeShortName(c)
	}
}

// modifiesHeaps adds (conservatively, whole heaps) what a contract's modifies clause covers.
func (x *Exec) modifiesHeaps(con *Contract, callee *ssa.Function, c *ssa.CallCommon, ws *writeSet, env map[ssa.Value]Val, region []*ssa.BasicBlock) {
	for _, item := range con.Modifies {
		if c != nil {
			// `map(p)` / `elems(p)` of a parameter whose argument is fixed before the analysed
			// region: only that one object is written (pointwise havoc)
			it := strings.TrimSpace(item)
			isMap := strings.HasPrefix(it, "map(") && strings.HasSuffix(it, ")")
			isElems := strings.HasPrefix(it, "elems(") && strings.HasSuffix(it, ")")
			if isMap || isElems {
				name := strings.TrimSpace(it[strings.Index(it, "(")+1 : len(it)-1])
				if arg := argForName(c, name); arg != nil {
					if os.Getenv("GVERIF_DEBUG") == "2" {
						ev, inEnv := Val{}, false
						if ld, ok := arg.(*ssa.UnOp); ok && env != nil {
							ev, inEnv = env[ld.X]
						}
						fmt.Fprintf(os.Stderr, "  modifies %s of %s: arg %T %v inEnv=%v loc=%+v\n", it, con.Key, arg, arg, inEnv, ev.Loc)
					}
					if x.regionFresh(arg, region, ws) {
						// the object is allocated inside the analysed region: a write to a fresh object
						ws.inFresh = true
						if mt, ok := arg.Type().Underlying().(*types.Map); ok && isMap {
							dn, ds, vn, vs := x.mapHeaps(mt)
							ws.w(dn, ds)
							ws.w(vn, vs)
							ws.inFresh = false
							continue
						}
						if sl, ok := arg.Type().Underlying().(*types.Slice); ok && isElems {
							hn, hs := x.elemHeap(sl.Elem())
							ws.w(hn, hs)
							ws.inFresh = false
							continue
						}
						ws.inFresh = false
					}
					if ld, ok := arg.(*ssa.UnOp); ok && ld.Op == token.MUL && env != nil && isMap {
						if cv, ok := env[ld.X]; ok && cv.Loc != nil && cv.Loc.Kind == LCell {
							mt, isM := arg.Type().Underlying().(*types.Map)
							if isM && cv.Loc.Cell > 0 {
								// the content of a variable (cell): pointwise if the region never assigns it
								dn, ds, vn, vs := x.mapHeaps(mt)
								ws.cellMaps = append(ws.cellMaps, cellMapWrite{cv.Loc.Cell, dn, ds, vn, vs})
								continue
							}
							if al, isAl := cv.Loc.Src.(*ssa.Alloc); isM && cv.Loc.Cell == -1 && isAl && x.cellHoldsOnly(al, func(v ssa.Value) bool { return x.regionFresh(v, region, ws) || x.inBlocksFresh(v, al) }) {
								// a variable declared inside the region that only ever holds objects allocated there
								dn, ds, vn, vs := x.mapHeaps(mt)
								ws.inFresh = true
								ws.w(dn, ds)
								ws.w(vn, vs)
								ws.inFresh = false
								continue
							}
						}
					}
					if av, ok := env[arg]; env != nil && ok && av.T != "" {
						if mt, ok := arg.Type().Underlying().(*types.Map); ok && isMap {
							dn, ds, vn, vs := x.mapHeaps(mt)
							ws.wPoint(dn, ds, av.T)
							ws.wPoint(vn, vs, av.T)
							continue
						}
						if sl, ok := arg.Type().Underlying().(*types.Slice); ok && isElems {
							hn, hs := x.elemHeap(sl.Elem())
							ws.wPoint(hn, hs, "(s_arr "+av.T+")")
							continue
						}
					}
					if _, ok := arg.(*ssa.Phi); ok && env != nil && isMap {
						// a variable that holds an object fixed before the region on some edges and
						// objects allocated inside the region on the others
						refs, okAll := x.phiTargets(arg, env, region, ws, map[ssa.Value]bool{})
						if mt, isM := arg.Type().Underlying().(*types.Map); isM && okAll {
							dn, ds, vn, vs := x.mapHeaps(mt)
							for _, r := range refs {
								ws.wPoint(dn, ds, r)
								ws.wPoint(vn, vs, r)
							}
							ws.inFresh = true
							ws.w(dn, ds)
							ws.w(vn, vs)
							ws.inFresh = false
							continue
						}
					}
					if (ws.efreshVals[arg] || x.fnFresh(arg, map[ssa.Value]bool{})) && !ws.freshVals[arg] {
						if _, isParam := arg.(*ssa.Parameter); !isParam || ws.efreshVals[arg] {
							ws.inEFresh = true
							if mt, ok := arg.Type().Underlying().(*types.Map); ok && isMap {
								dn, ds, vn, vs := x.mapHeaps(mt)
								ws.w(dn, ds)
								ws.w(vn, vs)
								ws.inEFresh = false
								continue
							}
							ws.inEFresh = false
						}
					}
				}
			}
		}
		tgt := x.resolveModifies(con, callee, c, item)
		if tgt.all {
			ws.all = true
			return
		}
		ws.inFresh = strings.HasPrefix(strings.TrimSpace(item), "fresh ")
		for n, s := range tgt.heaps {
			ws.w(n, s)
		}
		ws.inFresh = false
	}
}

// freshResult: the contract promises (unconditionally) that the single / first result is nil or
// allocated during the call: a top-level conjunct `fresh(result)` (or result0), possibly guarded
// by `result == nil ||`.
func freshResult(con *Contract) bool {
	for _, c := range con.Ensures {
		for _, part := range strings.Split(c.Src, "&&") {
			t := strings.Join(strings.Fields(part), " ")
			if strings.HasPrefix(t, "(") && strings.HasSuffix(t, "))") {
				t = t[1 : len(t)-1]
			}
			switch t {
			case "fresh(result)", "fresh(result0)", "result == nil || fresh(result)", "result0 == nil || fresh(result0)":
				// only when the clause is a plain conjunction (no implication / disjunction around it)
				if !strings.Contains(c.Src, "==>") && !strings.Contains(strings.Replace(c.Src, t, "", 1), "||") {
					return true
				}
			}
		}
	}
	return false
}

// regionFresh: the value is an object allocated inside the analysed blocks (an allocation
// instruction, a call whose contract promises a fresh result, or a parameter bound to one).
func (x *Exec) regionFresh(v ssa.Value, blocks []*ssa.BasicBlock, ws *writeSet) bool {
	return x.regionFresh1(v, blocks, ws, map[ssa.Value]bool{})
}

func (x *Exec) regionFresh1(v ssa.Value, blocks []*ssa.BasicBlock, ws *writeSet, seen map[ssa.Value]bool) bool {
	if ws != nil && ws.freshVals[v] {
		return true
	}
	if c, ok := v.(*ssa.Const); ok && c.IsNil() {
		return true // no object at all
	}
	if seen[v] {
		return true
	}
	seen[v] = true
	switch t := v.(type) {
	case *ssa.Phi:
		// nil or an object allocated in the region on every edge (a slice that starts nil and
		// only grows by append inside the loop lives in arrays allocated inside the loop)
		for _, e := range t.Edges {
			if !x.regionFresh1(e, blocks, ws, seen) {
				return false
			}
		}
		return true
	case *ssa.Call:
		if b, ok := t.Call.Value.(*ssa.Builtin); ok && b.Name() == "append" {
			inRegion := false
			for _, blk := range blocks {
				if t.Block() == blk {
					inRegion = true
				}
			}
			if ws != nil {
				for _, blk := range ws.rootRegion {
					if t.Block() == blk {
						inRegion = true
					}
				}
			}
			return inRegion && x.regionFresh1(t.Call.Args[0], blocks, ws, seen)
		}
	}
	ins, ok := v.(ssa.Instruction)
	if !ok {
		return false
	}
	in := false
	for _, b := range blocks {
		if ins.Block() == b {
			in = true
		}
	}
	if ws != nil {
		for _, b := range ws.rootRegion {
			if ins.Block() == b {
				in = true
			}
		}
	}
	if os.Getenv("GVERIF_DEBUG") == "2" {
		fmt.Fprintf(os.Stderr, "    regionFresh %v in=%v block=%v nroot=%d\n", v, in, ins.Block(), len(ws.rootRegion))
	}
	if !in {
		return false
	}
	switch t := v.(type) {
	case *ssa.MakeMap, *ssa.MakeSlice, *ssa.Alloc:
		return true
	case *ssa.Call:
		if callee := t.Call.StaticCallee(); callee != nil {
			if con := x.contractFor(callee); con != nil && !con.Inline && freshResult(con) {
				return true
			}
			if con := x.contractFor(callee); (con == nil || con.Inline) && returnsFreshAlloc(callee) {
				return true
			}
		}
	}
	return false
}

// returnsFreshAlloc: every return of the (inlined) function yields, as its single result, an object
// allocated by that activation (an escaping Alloc such as &T{...} / new(T)).
func returnsFreshAlloc(fn *ssa.Function) bool {
	if len(fn.Blocks) == 0 || fn.Signature.Results().Len() != 1 {
		return false
	}
	found := false
	for _, b := range fn.Blocks {
		for _, ins := range b.Instrs {
			if r, ok := ins.(*ssa.Return); ok {
				if len(r.Results) != 1 {
					return false
				}
				al, ok := r.Results[0].(*ssa.Alloc)
				if !ok || !al.Heap {
					return false
				}
				found = true
			}
		}
	}
	return found
}

// fnFresh: on every path the value is nil or an object allocated during the current activation of
// its function (an allocation, a call whose contract promises a fresh result, or a phi of such).
func (x *Exec) fnFresh(v ssa.Value, seen map[ssa.Value]bool) bool {
	if seen[v] {
		return true
	}
	seen[v] = true
	switch t := v.(type) {
	case *ssa.MakeMap, *ssa.MakeSlice:
		return true
	case *ssa.Const:
		return t.IsNil()
	case *ssa.Call:
		if callee := t.Call.StaticCallee(); callee != nil {
			if con := x.contractFor(callee); con != nil && !con.Inline && freshResult(con) && callee.Signature.Results().Len() == 1 {
				return true
			}
		}
	case *ssa.Phi:
		for _, e := range t.Edges {
			if !x.fnFresh(e, seen) {
				return false
			}
		}
		return true
	}
	return false
}

// cellHoldsOnly: every value stored into the variable (through the Alloc itself or through the
// free variables of closures that capture it) satisfies pred; any other use of its address
// (escapes) makes the answer false.
func (x *Exec) cellHoldsOnly(al ssa.Value, pred func(ssa.Value) bool) bool {
	refs := al.Referrers()
	if refs == nil {
		return false
	}
	for _, r := range *refs {
		if os.Getenv("GVERIF_DEBUG") == "2" {
			fmt.Fprintf(os.Stderr, "    referrer of %v: %T %v\n", al, r, r)
		}
		switch t := r.(type) {
		case *ssa.Store:
			if t.Addr != al {
				return false // the address itself is stored somewhere
			}
			if !pred(t.Val) {
				return false
			}
		case *ssa.UnOp:
			if t.Op != token.MUL {
				return false
			}
		case *ssa.DebugRef:
		case *ssa.MakeClosure:
			fnc, ok := t.Fn.(*ssa.Function)
			if !ok {
				return false
			}
			for i, b := range t.Bindings {
				if b == al {
					if i >= len(fnc.FreeVars) || !x.cellHoldsOnly(fnc.FreeVars[i], pred) {
						return false
					}
				}
			}
		default:
			return false
		}
	}
	return true
}

// inBlocksFresh: the value is allocated by the body of a closure that captured the variable (the
// closure is created after the Alloc, which is inside the analysed region).
func (x *Exec) inBlocksFresh(v ssa.Value, al *ssa.Alloc) bool {
	ins, ok := v.(ssa.Instruction)
	if !ok || ins.Parent() == al.Parent() {
		return false // only inside a closure that captured the variable (it runs after the Alloc)
	}
	switch t := v.(type) {
	case *ssa.MakeMap, *ssa.MakeSlice:
		return true
	case *ssa.Call:
		if callee := t.Call.StaticCallee(); callee != nil {
			if con := x.contractFor(callee); con != nil && !con.Inline && freshResult(con) {
				return true
			}
		}
	}
	return false
}

// phiTargets: the objects a (phi) value may denote: references fixed before the region (returned
// as terms) or objects allocated inside the region; ok is false if some source is neither.
func (x *Exec) phiTargets(v ssa.Value, env map[ssa.Value]Val, region []*ssa.BasicBlock, ws *writeSet, seen map[ssa.Value]bool) ([]string, bool) {
	if seen[v] {
		return nil, true
	}
	seen[v] = true
	if ev, ok := env[v]; ok && ev.T != "" {
		return []string{ev.T}, true
	}
	if ph, ok := v.(*ssa.Phi); ok {
		var refs []string
		for _, e := range ph.Edges {
			r, ok := x.phiTargets(e, env, region, ws, seen)
			if !ok {
				return nil, false
			}
			refs = append(refs, r...)
		}
		return refs, true
	}
	if x.regionFresh(v, region, ws) {
		return nil, true
	}
	return nil, false
}

// selfAppendCell: v is a load of a slice variable (an Alloc of this function, or a captured one
// whose Alloc is known) into which only nil, append(<load of the same variable>, ...) results and
// objects allocated during the function are ever stored, and whose address does not escape
// otherwise. Returns the Alloc, or nil.
func (x *Exec) selfAppendCell(v ssa.Value, env map[ssa.Value]Val) ssa.Value {
	ld, ok := v.(*ssa.UnOp)
	if !ok || ld.Op != token.MUL {
		return nil
	}
	var al ssa.Value
	switch a := ld.X.(type) {
	case *ssa.Alloc:
		al = a
	default:
		if env != nil {
			if cv, ok := env[ld.X]; ok && cv.Loc != nil && cv.Loc.Kind == LCell && cv.Loc.Src != nil {
				al = cv.Loc.Src
			}
		}
	}
	if al == nil {
		return nil
	}
	if _, isSlice := al.Type().(*types.Pointer).Elem().Underlying().(*types.Slice); !isSlice {
		return nil
	}
	var isSelf func(w ssa.Value, cell ssa.Value) bool
	isSelf = func(w ssa.Value, cell ssa.Value) bool {
		if c, ok := w.(*ssa.Const); ok && c.IsNil() {
			return true
		}
		if call, ok := w.(*ssa.Call); ok {
			if b, ok := call.Call.Value.(*ssa.Builtin); ok && b.Name() == "append" {
				if l2, ok := call.Call.Args[0].(*ssa.UnOp); ok && l2.Op == token.MUL && l2.X == cell {
					return true
				}
			}
		}
		return x.fnFresh(w, map[ssa.Value]bool{})
	}
	var holds func(cell ssa.Value) bool
	holds = func(cell ssa.Value) bool {
		refs := cell.Referrers()
		if refs == nil {
			return false
		}
		for _, r := range *refs {
			switch t := r.(type) {
			case *ssa.Store:
				if t.Addr != cell || !isSelf(t.Val, cell) {
					return false
				}
			case *ssa.UnOp:
				if t.Op != token.MUL {
					return false
				}
			case *ssa.DebugRef:
			case *ssa.MakeClosure:
				fnc, ok := t.Fn.(*ssa.Function)
				if !ok {
					return false
				}
				for i, b := range t.Bindings {
					if b == cell && (i >= len(fnc.FreeVars) || !holds(fnc.FreeVars[i])) {
						return false
					}
				}
			default:
				return false
			}
		}
		return true
	}
	if !holds(al) {
		return nil
	}
	return al
}

// argForName: the call argument bound to the callee's parameter (or receiver) of that name.
func argForName(c *ssa.CallCommon, name string) ssa.Value {
	sig := c.Signature()
	if sig == nil {
		return nil
	}
	if c.IsInvoke() {
		if name == "self" {
			return c.Value
		}
		for i := 0; i < sig.Params().Len() && i < len(c.Args); i++ {
			if sig.Params().At(i).Name() == name {
				return c.Args[i]
			}
		}
		return nil
	}
	off := 0
	if sig.Recv() != nil {
		if len(c.Args) == 0 {
			return nil
		}
		if name == "self" || name == sig.Recv().Name() {
			return c.Args[0]
		}
		off = 1
	}
	for i := 0; i < sig.Params().Len() && off+i < len(c.Args); i++ {
		if sig.Params().At(i).Name() == name {
			return c.Args[off+i]
		}
	}
	return nil
}

func (x *Exec) havocAll(st *State) {
	oldAlloc := x.heap(st, "$alloc", "Int")
	for n := range st.heaps {
		if x.pinned(n) {
			continue
		}
		delete(st.heaps, n)
	}
	st.epoch++
	na := x.heap(st, "$alloc", "Int")
	st.assume(fmt.Sprintf("(>= %s %s)", na, oldAlloc))
}

// decTags: termination obligations count for C18 and for the properties the function is listed under.
func (x *Exec) decTags() []string {
	tags := []string{"C18"}
	if x.curCon != nil {
		for _, p := range x.curCon.Props {
			if p != "C18" {
				tags = append(tags, p)
			}
		}
	}
	return tags
}

// rootIsLocalAlloc: the address is a (nested) field / element of an object allocated by an Alloc
// instruction inside the analysed blocks.
func (x *Exec) rootIsLocalAlloc(addr ssa.Value, blocks []*ssa.BasicBlock, ws *writeSet) bool {
	for {
		switch a := addr.(type) {
		case *ssa.FieldAddr:
			addr = a.X
			continue
		case *ssa.IndexAddr:
			if _, ok := a.X.Type().Underlying().(*types.Pointer); ok {
				addr = a.X
				continue
			}
			return false
		case *ssa.Alloc:
			for _, b := range blocks {
				if a.Block() == b {
					return true
				}
			}
			return false
		default:
			return ws != nil && (ws.freshVals[addr] || x.regionFresh(addr, blocks, ws))
		}
	}
}

func callerBlocks(fn *ssa.Function) []*ssa.BasicBlock {
	if fn == nil {
		return nil
	}
	return fn.Blocks
}
