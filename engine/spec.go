package main

// Contract language: lexer, parser, AST.
//
// Contracts are structured comments (`//@ ...`) in comment-only files
// zz_contracts_verif.go (build tag verif) inside /repo packages, and in
// /verif/contracts/external/*.spec for assumed contracts of external functions.

import (
	"fmt"
	"strconv"
	"strings"
)

// ---------------------------------------------------------------------------------------------
// AST

type Expr interface{ String() string }

type (
	EIdent struct{ Name string }
	EInt   struct{ V string }
	EStr   struct{ V string }
	EBool  struct{ V bool }
	ENil   struct{}
	EUn    struct {
		Op string
		X  Expr
	}
	EBin struct {
		Op   string
		X, Y Expr
	}
	ESel struct {
		X Expr
		F string
	}
	EIdx struct {
		X, I Expr
	}
	EUpd struct { // X[I := V]
		X, I, V Expr
	}
	ECall struct {
		Fn   string
		Args []Expr
	}
	EQuant struct {
		Forall bool
		Vars   []QVar
		Trig   [][]Expr
		Body   Expr
	}
	EIte struct {
		C, A, B Expr
	}
	EOld struct{ X Expr }
	ELet  struct {
		Name string
		V, B Expr
	}
)

type QVar struct {
	Name string
	Ty   string // type text
}

func (e *EIdent) String() string { return e.Name }
func (e *EInt) String() string   { return e.V }
func (e *EStr) String() string   { return strconv.Quote(e.V) }
func (e *EBool) String() string  { return fmt.Sprint(e.V) }
func (e *ENil) String() string   { return "nil" }
func (e *EUn) String() string    { return e.Op + e.X.String() }
func (e *EBin) String() string   { return "(" + e.X.String() + " " + e.Op + " " + e.Y.String() + ")" }
func (e *ESel) String() string   { return e.X.String() + "." + e.F }
func (e *EIdx) String() string   { return e.X.String() + "[" + e.I.String() + "]" }
func (e *EUpd) String() string {
	return e.X.String() + "[" + e.I.String() + " := " + e.V.String() + "]"
}
func (e *ECall) String() string {
	var a []string
	for _, x := range e.Args {
		a = append(a, x.String())
	}
	return e.Fn + "(" + strings.Join(a, ", ") + ")"
}
func (e *EQuant) String() string {
	q := "exists"
	if e.Forall {
		q = "forall"
	}
	var vs []string
	for _, v := range e.Vars {
		vs = append(vs, v.Name+" "+v.Ty)
	}
	return "(" + q + " " + strings.Join(vs, ", ") + " :: " + e.Body.String() + ")"
}
func (e *EIte) String() string {
	return "(" + e.C.String() + " ? " + e.A.String() + " : " + e.B.String() + ")"
}
func (e *EOld) String() string { return "old(" + e.X.String() + ")" }
func (e *ELet) String() string {
	return "(let " + e.Name + " = " + e.V.String() + " in " + e.B.String() + ")"
}

// ---------------------------------------------------------------------------------------------
// Lexer

type tok struct {
	k string // "id", "int", "str", "op", "eof"
	s string
}

func lexSpec(src string) ([]tok, error) {
	var out []tok
	i := 0
	for i < len(src) {
		c := src[i]
		switch {
		case c == ' ' || c == '\t' || c == '\n' || c == '\r':
			i++
		case c == '/' && i+1 < len(src) && src[i+1] == '/':
			// trailing comment inside a contract line
			for i < len(src) && src[i] != '\n' {
				i++
			}
		case isIdStart(c):
			j := i
			for j < len(src) && (isIdStart(src[j]) || (src[j] >= '0' && src[j] <= '9')) {
				j++
			}
			out = append(out, tok{"id", src[i:j]})
			i = j
		case c >= '0' && c <= '9':
			j := i
			for j < len(src) && ((src[j] >= '0' && src[j] <= '9') || src[j] == 'x' || (src[j] >= 'a' && src[j] <= 'f') || (src[j] >= 'A' && src[j] <= 'F') || src[j] == '_') {
				j++
			}
			s := strings.ReplaceAll(src[i:j], "_", "")
			if strings.HasPrefix(s, "0x") {
				v, err := strconv.ParseUint(s[2:], 16, 64)
				if err != nil {
					return nil, err
				}
				s = strconv.FormatUint(v, 10)
			}
			out = append(out, tok{"int", s})
			i = j
		case c == '"':
			j := i + 1
			for j < len(src) && src[j] != '"' {
				if src[j] == '\\' {
					j++
				}
				j++
			}
			if j >= len(src) {
				return nil, fmt.Errorf("unterminated string in %q", src)
			}
			s, err := strconv.Unquote(src[i : j+1])
			if err != nil {
				return nil, err
			}
			out = append(out, tok{"str", s})
			i = j + 1
		default:
			ops := []string{"<==>", "==>", ":=", "::", "==", "!=", "<=", ">=", "&&", "||", "<<", ">>"}
			matched := false
			for _, o := range ops {
				if strings.HasPrefix(src[i:], o) {
					out = append(out, tok{"op", o})
					i += len(o)
					matched = true
					break
				}
			}
			if !matched {
				if strings.ContainsRune("+-*/%<>!()[]{}.,?:&|^=", rune(c)) {
					out = append(out, tok{"op", string(c)})
					i++
				} else {
					return nil, fmt.Errorf("bad character %q in %q", c, src)
				}
			}
		}
	}
	out = append(out, tok{"eof", ""})
	return out, nil
}

func isIdStart(c byte) bool {
	return c == '_' || c == '$' || (c >= 'a' && c <= 'z') || (c >= 'A' && c <= 'Z')
}

// ---------------------------------------------------------------------------------------------
// Parser (precedence climbing)

type sparser struct {
	toks []tok
	p    int
	src  string
}

func parseSpecExpr(src string) (e Expr, err error) {
	toks, err := lexSpec(src)
	if err != nil {
		return nil, err
	}
	ps := &sparser{toks: toks, src: src}
	defer func() {
		if r := recover(); r != nil {
			if pe, ok := r.(parseErr); ok {
				err = fmt.Errorf("%s in %q", string(pe), src)
				return
			}
			panic(r)
		}
	}()
	e = ps.expr()
	if ps.peek().k != "eof" {
		ps.fail("trailing tokens at " + ps.peek().s)
	}
	return e, nil
}

type parseErr string

func (ps *sparser) fail(msg string) { panic(parseErr(msg)) }
func (ps *sparser) peek() tok       { return ps.toks[ps.p] }
func (ps *sparser) next() tok       { t := ps.toks[ps.p]; ps.p++; return t }
func (ps *sparser) isOp(s string) bool {
	t := ps.peek()
	return t.k == "op" && t.s == s
}
func (ps *sparser) isId(s string) bool {
	t := ps.peek()
	return t.k == "id" && t.s == s
}
func (ps *sparser) expectOp(s string) {
	if !ps.isOp(s) {
		ps.fail("expected " + s + " got " + ps.peek().s)
	}
	ps.next()
}

// expr := quant | iff
func (ps *sparser) expr() Expr {
	if ps.isId("forall") || ps.isId("exists") {
		return ps.quant()
	}
	if ps.isId("let") {
		ps.next()
		n := ps.next()
		if n.k != "id" {
			ps.fail("let needs a name")
		}
		ps.expectOp("=")
		v := ps.add() // no comparison operators in the bound value: `in` ends it
		if !ps.isId("in") {
			ps.fail("let needs in")
		}
		ps.next()
		b := ps.expr()
		return &ELet{n.s, v, b}
	}
	return ps.iff()
}

func (ps *sparser) quant() Expr {
	q := &EQuant{Forall: ps.next().s == "forall"}
	for {
		n := ps.next()
		if n.k != "id" {
			ps.fail("quantifier variable expected")
		}
		ty := ps.typeText()
		q.Vars = append(q.Vars, QVar{n.s, ty})
		if ps.isOp(",") {
			ps.next()
			continue
		}
		break
	}
	for ps.isOp("{") {
		ps.next()
		var tr []Expr
		for {
			tr = append(tr, ps.iff())
			if ps.isOp(",") {
				ps.next()
				continue
			}
			break
		}
		ps.expectOp("}")
		q.Trig = append(q.Trig, tr)
	}
	ps.expectOp("::")
	q.Body = ps.expr()
	return q
}

// typeText reads a type up to ',' '::' '{' '=' ')' at depth 0
func (ps *sparser) typeText() string {
	var sb strings.Builder
	depth := 0
	for {
		t := ps.peek()
		if t.k == "eof" {
			break
		}
		if depth == 0 && t.k == "op" && (t.s == "," || t.s == "::" || t.s == "{" || t.s == "=" || t.s == ")") {
			break
		}
		if t.k == "op" && (t.s == "[" || t.s == "(") {
			depth++
		}
		if t.k == "op" && (t.s == "]" || t.s == ")") {
			depth--
		}
		sb.WriteString(t.s)
		ps.next()
	}
	return sb.String()
}

func (ps *sparser) iff() Expr {
	x := ps.implies()
	for ps.isOp("<==>") {
		ps.next()
		var y Expr
		if ps.isId("forall") || ps.isId("exists") {
			y = ps.expr()
		} else {
			y = ps.implies()
		}
		x = &EBin{"<==>", x, y}
	}
	return x
}

func (ps *sparser) implies() Expr {
	x := ps.ternary()
	if ps.isOp("==>") {
		ps.next()
		var y Expr
		if ps.isId("forall") || ps.isId("exists") || ps.isId("let") {
			y = ps.expr()
		} else {
			y = ps.implies()
		}
		return &EBin{"==>", x, y}
	}
	return x
}

func (ps *sparser) ternary() Expr {
	c := ps.or()
	if ps.isOp("?") {
		ps.next()
		a := ps.ternary()
		ps.expectOp(":")
		b := ps.ternary()
		return &EIte{c, a, b}
	}
	return c
}

func (ps *sparser) or() Expr {
	x := ps.and()
	for ps.isOp("||") {
		ps.next()
		x = &EBin{"||", x, ps.and()}
	}
	return x
}
func (ps *sparser) and() Expr {
	x := ps.cmp()
	for ps.isOp("&&") {
		ps.next()
		var y Expr
		if ps.isId("forall") || ps.isId("exists") {
			y = ps.expr()
		} else {
			y = ps.cmp()
		}
		x = &EBin{"&&", x, y}
	}
	return x
}
func (ps *sparser) cmp() Expr {
	x := ps.add()
	for {
		t := ps.peek()
		if t.k == "op" && (t.s == "==" || t.s == "!=" || t.s == "<" || t.s == "<=" || t.s == ">" || t.s == ">=") {
			ps.next()
			y := ps.add()
			x = &EBin{t.s, x, y}
			continue
		}
		if t.k == "id" && t.s == "in" {
			ps.next()
			y := ps.add()
			x = &EBin{"in", x, y}
			continue
		}
		return x
	}
}
func (ps *sparser) add() Expr {
	x := ps.mul()
	for ps.isOp("+") || ps.isOp("-") {
		o := ps.next().s
		x = &EBin{o, x, ps.mul()}
	}
	return x
}
func (ps *sparser) mul() Expr {
	x := ps.unary()
	for ps.isOp("*") || ps.isOp("/") || ps.isOp("%") {
		o := ps.next().s
		x = &EBin{o, x, ps.unary()}
	}
	return x
}
func (ps *sparser) unary() Expr {
	if ps.isOp("!") {
		ps.next()
		return &EUn{"!", ps.unary()}
	}
	if ps.isOp("-") {
		ps.next()
		return &EUn{"-", ps.unary()}
	}
	if ps.isOp("*") {
		ps.next()
		return &EUn{"*", ps.unary()}
	}
	return ps.postfix()
}
func (ps *sparser) postfix() Expr {
	x := ps.primary()
	for {
		switch {
		case ps.isOp("."):
			ps.next()
			n := ps.next()
			if n.k != "id" && n.k != "int" {
				ps.fail("field name expected")
			}
			// qualified call pkg.f(...)
			if id, ok := x.(*EIdent); ok && ps.isOp("(") {
				ps.next()
				args := ps.args()
				x = &ECall{id.Name + "." + n.s, args}
				continue
			}
			x = &ESel{x, n.s}
		case ps.isOp("["):
			ps.next()
			i := ps.expr()
			if ps.isOp(":=") {
				ps.next()
				v := ps.expr()
				ps.expectOp("]")
				x = &EUpd{x, i, v}
			} else {
				ps.expectOp("]")
				x = &EIdx{x, i}
			}
		default:
			return x
		}
	}
}
func (ps *sparser) args() []Expr {
	var args []Expr
	if ps.isOp(")") {
		ps.next()
		return args
	}
	for {
		args = append(args, ps.expr())
		if ps.isOp(",") {
			ps.next()
			continue
		}
		ps.expectOp(")")
		return args
	}
}
func (ps *sparser) primary() Expr {
	t := ps.next()
	switch t.k {
	case "int":
		return &EInt{t.s}
	case "str":
		return &EStr{t.s}
	case "id":
		switch t.s {
		case "true":
			return &EBool{true}
		case "false":
			return &EBool{false}
		case "nil":
			return &ENil{}
		case "forall", "exists":
			ps.p--
			return ps.quant()
		case "let":
			ps.p--
			return ps.expr()
		case "old":
			ps.expectOp("(")
			x := ps.expr()
			ps.expectOp(")")
			return &EOld{x}
		}
		if ps.isOp("(") {
			ps.next()
			return &ECall{t.s, ps.args()}
		}
		return &EIdent{t.s}
	case "op":
		if t.s == "(" {
			x := ps.expr()
			ps.expectOp(")")
			return x
		}
	}
	ps.fail("unexpected token " + t.s)
	return nil
}

// ---------------------------------------------------------------------------------------------
// Contract file structure

type Clause struct {
	Tags []string // property ids
	Name string   // optional label
	E    Expr
	Src  string
}

type LoopSpec struct {
	Inv       []Clause
	Decreases Expr
	DecSrc    string
}

type Contract struct {
	Key      string // function key (relative name inside a package, or full name for externals)
	Pkg      string // package path the contract file belongs to ("" for external catalogue)
	File     string
	Trusted  bool // contract assumed, body not verified against it
	NoEffect bool // external: no effect on modelled state, results arbitrary
	Det      bool // external: results are a deterministic function of the arguments
	Inline   bool // callers inline the body instead of using the contract
	Sweep    bool // only safety obligations wanted
	Abstract bool // function outside subset: abstracted mode
	MathInt  bool // treat signed 64-bit arithmetic as mathematical (listed as assumption)
	Requires []Clause
	Ensures  []Clause
	Modifies []string // heap component patterns / ghost names; nil = not stated (no frame check), empty non-nil = nothing
	ModStated bool
	Loops    map[string]*LoopSpec // key: loop id ("0", "1", "call:walkIPRanges#0/1")
	Lets     []LetDef
	Props    []string // properties this function is verified for (tags on func line)
}

type LetDef struct {
	Name string
	E    Expr
	Old  bool
}

type PureDef struct {
	Rec    bool
	Name   string
	Params []QVar
	Ret    string
	Body   Expr // nil => uninterpreted
	Pkg    string
	Src    string
}

type GhostDef struct {
	Name string
	Ty   string
}

type AxiomDef struct {
	Name string
	E    Expr
	Pkg  string
	Src  string
}

type LemmaDef struct {
	Name     string
	Params   []QVar
	Requires []Clause
	Ensures  []Clause
	Pkg      string
	Tags     []string
}

type GuardDef struct {
	Struct string // struct type name (relative)
	Field  string
	Lock   string // field path of the lock relative to the same struct value, e.g. "cacheLock"
	Pkg    string
	Tags   []string
}

type TypeInv struct {
	Type, Pkg string
	E         Expr
	Src       string
}

type PkgRule struct {
	Prefix   string
	NoEffect bool
	Det      bool
}

type SpecDB struct {
	Contracts map[string]*Contract // key: pkgpath + "::" + Key ; externals: "::" + full name
	Pures     map[string]*PureDef
	Ghosts    []GhostDef
	Axioms    []AxiomDef
	Lemmas    []LemmaDef
	Guards    []GuardDef
	Immutable []GuardDef
	PkgRules  []PkgRule
	RawAxioms [][2]string
	TypeInvs  []TypeInv
	Files     []string
}

func newSpecDB() *SpecDB {
	return &SpecDB{Contracts: map[string]*Contract{}, Pures: map[string]*PureDef{}}
}

var directiveWords = map[string]bool{
	"func": true, "requires": true, "ensures": true, "modifies": true, "loop": true, "pure": true,
	"ghost": true, "lemma": true, "axiom": true, "uninterp": true, "guarded": true, "immutable": true,
	"pkg": true, "let": true, "end": true, "rawaxiom": true, "typeinv": true,
}

// parseTags parses an optional leading "[C01,C05]" or "[C01:name]"
func parseTags(s string) ([]string, string, string) {
	s = strings.TrimSpace(s)
	if !strings.HasPrefix(s, "[") {
		return nil, "", s
	}
	j := strings.Index(s, "]")
	if j < 0 {
		return nil, "", s
	}
	inner := s[1:j]
	rest := strings.TrimSpace(s[j+1:])
	name := ""
	if k := strings.Index(inner, ":"); k >= 0 {
		name = strings.TrimSpace(inner[k+1:])
		inner = inner[:k]
	}
	var tags []string
	for _, t := range strings.Split(inner, ",") {
		t = strings.TrimSpace(t)
		if t != "" {
			tags = append(tags, t)
		}
	}
	return tags, name, rest
}

// parseContractText parses the //@ lines of one file.
func (db *SpecDB) parseContractText(file, pkgPath, text string) error {
	// collect logical lines
	type lline struct {
		s  string
		ln int
	}
	var lines []lline
	for n, raw := range strings.Split(text, "\n") {
		t := strings.TrimSpace(raw)
		if !strings.HasPrefix(t, "//@") {
			continue
		}
		body := strings.TrimSpace(t[3:])
		if body == "" {
			continue
		}
		first := body
		if i := strings.IndexAny(body, " \t"); i >= 0 {
			first = body[:i]
		}
		if directiveWords[first] || len(lines) == 0 {
			lines = append(lines, lline{body, n + 1})
		} else {
			lines[len(lines)-1].s += " " + body
		}
	}
	var cur *Contract
	var curLemma *LemmaDef
	mkClause := func(rest string, ln int) (Clause, error) {
		tags, name, r := parseTags(rest)
		e, err := parseSpecExpr(r)
		if err != nil {
			return Clause{}, fmt.Errorf("%s:%d: %v", file, ln, err)
		}
		return Clause{Tags: tags, Name: name, E: e, Src: r}, nil
	}
	for _, l := range lines {
		word, rest := l.s, ""
		if i := strings.IndexAny(l.s, " \t"); i >= 0 {
			word, rest = l.s[:i], strings.TrimSpace(l.s[i+1:])
		}
		switch word {
		case "end":
			cur, curLemma = nil, nil
		case "pkg":
			f := strings.Fields(rest)
			if len(f) < 2 {
				return fmt.Errorf("%s:%d: pkg <prefix> noeffect|det", file, l.ln)
			}
			r := PkgRule{Prefix: f[0]}
			for _, o := range f[1:] {
				switch o {
				case "noeffect":
					r.NoEffect = true
				case "det":
					r.Det = true
					r.NoEffect = true
				}
			}
			db.PkgRules = append(db.PkgRules, r)
		case "func":
			curLemma = nil
			tags, _, r := parseTags(rest)
			f := strings.Fields(r)
			if len(f) == 0 {
				return fmt.Errorf("%s:%d: func needs a name", file, l.ln)
			}
			c := &Contract{Key: f[0], Pkg: pkgPath, File: file, Loops: map[string]*LoopSpec{}, Props: tags}
			for _, o := range f[1:] {
				switch o {
				case "trusted":
					c.Trusted = true
				case "noeffect":
					c.NoEffect = true
				case "det":
					c.Det = true
					c.NoEffect = true
				case "inline":
					c.Inline = true
				case "sweep":
					c.Sweep = true
				case "abstract":
					c.Abstract = true
				case "mathint":
					c.MathInt = true
				default:
					return fmt.Errorf("%s:%d: unknown func option %q", file, l.ln, o)
				}
			}
			k := pkgPath + "::" + c.Key
			if _, dup := db.Contracts[k]; dup {
				return fmt.Errorf("%s:%d: duplicate contract for %s", file, l.ln, k)
			}
			db.Contracts[k] = c
			cur = c
		case "requires", "ensures":
			cl, err := mkClause(rest, l.ln)
			if err != nil {
				return err
			}
			switch {
			case curLemma != nil && word == "requires":
				curLemma.Requires = append(curLemma.Requires, cl)
			case curLemma != nil:
				curLemma.Ensures = append(curLemma.Ensures, cl)
			case cur != nil && word == "requires":
				cur.Requires = append(cur.Requires, cl)
			case cur != nil:
				cur.Ensures = append(cur.Ensures, cl)
			default:
				return fmt.Errorf("%s:%d: %s outside func/lemma", file, l.ln, word)
			}
		case "modifies":
			if cur == nil {
				return fmt.Errorf("%s:%d: modifies outside func", file, l.ln)
			}
			cur.ModStated = true
			for _, m := range strings.Split(rest, ",") {
				m = strings.TrimSpace(m)
				if m != "" && m != "nothing" {
					cur.Modifies = append(cur.Modifies, m)
				}
			}
		case "let":
			if cur == nil {
				return fmt.Errorf("%s:%d: let outside func", file, l.ln)
			}
			i := strings.Index(rest, "=")
			if i < 0 {
				return fmt.Errorf("%s:%d: let name = expr", file, l.ln)
			}
			e, err := parseSpecExpr(rest[i+1:])
			if err != nil {
				return fmt.Errorf("%s:%d: %v", file, l.ln, err)
			}
			cur.Lets = append(cur.Lets, LetDef{Name: strings.TrimSpace(rest[:i]), E: e})
		case "loop":
			if cur == nil {
				return fmt.Errorf("%s:%d: loop outside func", file, l.ln)
			}
			f := strings.SplitN(rest, " ", 3)
			if len(f) < 3 {
				return fmt.Errorf("%s:%d: loop <id> invariant|decreases <expr>", file, l.ln)
			}
			for _, lid := range strings.Split(f[0], ",") {
				ls := cur.Loops[lid]
				if ls == nil {
					ls = &LoopSpec{}
					cur.Loops[lid] = ls
				}
				switch f[1] {
				case "invariant":
					cl, err := mkClause(f[2], l.ln)
					if err != nil {
						return err
					}
					ls.Inv = append(ls.Inv, cl)
				case "decreases":
					e, err := parseSpecExpr(f[2])
					if err != nil {
						return fmt.Errorf("%s:%d: %v", file, l.ln, err)
					}
					ls.Decreases, ls.DecSrc = e, f[2]
				default:
					return fmt.Errorf("%s:%d: loop clause %q", file, l.ln, f[1])
				}
			}
		case "pure", "uninterp":
			// pure name(p T, q U) R = expr      |   uninterp name(p T) R
			i := strings.Index(rest, "(")
			if i < 0 {
				return fmt.Errorf("%s:%d: bad %s", file, l.ln, word)
			}
			name := strings.TrimSpace(rest[:i])
			isRec := false
			if strings.HasPrefix(name, "rec ") {
				isRec = true
				name = strings.TrimSpace(name[4:])
			}
			depth, j := 0, i
			for ; j < len(rest); j++ {
				if rest[j] == '(' {
					depth++
				}
				if rest[j] == ')' {
					depth--
					if depth == 0 {
						break
					}
				}
			}
			params, err := parseParams(rest[i+1 : j])
			if err != nil {
				return fmt.Errorf("%s:%d: %v", file, l.ln, err)
			}
			after := strings.TrimSpace(rest[j+1:])
			pd := &PureDef{Name: name, Params: params, Pkg: pkgPath, Src: l.s, Rec: isRec}
			if word == "pure" {
				k := strings.Index(after, "=")
				if k < 0 {
					return fmt.Errorf("%s:%d: pure needs = body", file, l.ln)
				}
				pd.Ret = strings.TrimSpace(after[:k])
				e, err := parseSpecExpr(after[k+1:])
				if err != nil {
					return fmt.Errorf("%s:%d: %v", file, l.ln, err)
				}
				pd.Body = e
			} else {
				pd.Ret = after
			}
			if _, dup := db.Pures[name]; dup {
				return fmt.Errorf("%s:%d: duplicate pure %s", file, l.ln, name)
			}
			db.Pures[name] = pd
		case "ghost":
			f := strings.SplitN(rest, " ", 2)
			if len(f) != 2 {
				return fmt.Errorf("%s:%d: ghost name type", file, l.ln)
			}
			db.Ghosts = append(db.Ghosts, GhostDef{f[0], strings.TrimSpace(f[1])})
		case "axiom":
			i := strings.Index(rest, ":")
			if i < 0 {
				return fmt.Errorf("%s:%d: axiom name: expr", file, l.ln)
			}
			e, err := parseSpecExpr(rest[i+1:])
			if err != nil {
				return fmt.Errorf("%s:%d: %v", file, l.ln, err)
			}
			db.Axioms = append(db.Axioms, AxiomDef{Name: strings.TrimSpace(rest[:i]), E: e, Pkg: pkgPath, Src: rest[i+1:]})
		case "typeinv":
			// typeinv T: expr over `self` (a *T). Assumed for receivers and pointer parameters of
			// that type at function entry in safety sweeps (the type invariant of the surface).
			i := strings.Index(rest, ":")
			if i < 0 {
				return fmt.Errorf("%s:%d: typeinv T: expr", file, l.ln)
			}
			e, err := parseSpecExpr(rest[i+1:])
			if err != nil {
				return fmt.Errorf("%s:%d: %v", file, l.ln, err)
			}
			db.TypeInvs = append(db.TypeInvs, TypeInv{Type: strings.TrimSpace(rest[:i]), Pkg: pkgPath, E: e, Src: strings.TrimSpace(rest[i+1:])})
		case "rawaxiom":
			f := strings.SplitN(rest, " ", 2)
			if len(f) != 2 {
				return fmt.Errorf("%s:%d: rawaxiom <symbol> <smt assertion>", file, l.ln)
			}
			db.RawAxioms = append(db.RawAxioms, [2]string{f[0], strings.TrimSpace(f[1])})
		case "lemma":
			tags, _, r := parseTags(rest)
			i := strings.Index(r, "(")
			j := strings.LastIndex(r, ")")
			if i < 0 || j < i {
				return fmt.Errorf("%s:%d: lemma name(params)", file, l.ln)
			}
			params, err := parseParams(r[i+1 : j])
			if err != nil {
				return fmt.Errorf("%s:%d: %v", file, l.ln, err)
			}
			db.Lemmas = append(db.Lemmas, LemmaDef{Name: strings.TrimSpace(r[:i]), Params: params, Pkg: pkgPath, Tags: tags})
			curLemma = &db.Lemmas[len(db.Lemmas)-1]
			cur = nil
		case "guarded", "immutable":
			// guarded [C19] crdIpam.allocatedFIPs by cacheLock
			tags, _, r := parseTags(rest)
			f := strings.Fields(r)
			if len(f) < 1 {
				return fmt.Errorf("%s:%d: bad %s", file, l.ln, word)
			}
			sf := strings.SplitN(f[0], ".", 2)
			if len(sf) != 2 {
				return fmt.Errorf("%s:%d: %s Struct.field", file, l.ln, word)
			}
			g := GuardDef{Struct: sf[0], Field: sf[1], Pkg: pkgPath, Tags: tags}
			if word == "guarded" {
				if len(f) != 3 || f[1] != "by" {
					return fmt.Errorf("%s:%d: guarded Struct.field by lockfield", file, l.ln)
				}
				g.Lock = f[2]
				db.Guards = append(db.Guards, g)
			} else {
				db.Immutable = append(db.Immutable, g)
			}
		default:
			return fmt.Errorf("%s:%d: unknown directive %q", file, l.ln, word)
		}
	}
	// a clause tagged with a property makes its function part of that property's check
	for _, c := range db.Contracts {
		if c.Trusted || c.File != file {
			continue
		}
		add := func(tags []string) {
			for _, t := range tags {
				found := false
				for _, p := range c.Props {
					if p == t {
						found = true
					}
				}
				if !found && len(c.Props) > 0 {
					c.Props = append(c.Props, t)
				}
			}
		}
		for _, e := range c.Ensures {
			add(e.Tags)
		}
		for _, ls := range c.Loops {
			for _, e := range ls.Inv {
				add(e.Tags)
			}
		}
	}
	// lemma pointer fix: curLemma pointed into slice that may have been reallocated; handled by
	// only appending clauses right after creation (lemmas are closed by the next directive block).
	db.Files = append(db.Files, file)
	return nil
}

func parseParams(s string) ([]QVar, error) {
	var out []QVar
	s = strings.TrimSpace(s)
	if s == "" {
		return nil, nil
	}
	depth := 0
	start := 0
	var parts []string
	for i := 0; i < len(s); i++ {
		switch s[i] {
		case '(', '[':
			depth++
		case ')', ']':
			depth--
		case ',':
			if depth == 0 {
				parts = append(parts, s[start:i])
				start = i + 1
			}
		}
	}
	parts = append(parts, s[start:])
	for _, p := range parts {
		p = strings.TrimSpace(p)
		i := strings.IndexAny(p, " \t")
		if i < 0 {
			return nil, fmt.Errorf("parameter %q needs a type", p)
		}
		out = append(out, QVar{p[:i], strings.TrimSpace(p[i+1:])})
	}
	return out, nil
}
