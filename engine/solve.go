package main

// Solver race: z3-new (5.x), z3 (4.8), cvc5.

import (
	"bytes"
	"context"
	"fmt"
	"os"
	"os/exec"
	"path/filepath"
	"strings"
	"sync"
	"time"
)

type solverSpec struct {
	name string
	argv func(file string, timeoutS int) []string
}

var solvers = []solverSpec{
	{"z3-new", func(f string, t int) []string { return []string{"z3-new", fmt.Sprintf("-T:%d", t), f} }},
	{"z3", func(f string, t int) []string { return []string{"z3", fmt.Sprintf("-T:%d", t), f} }},
	{"cvc5", func(f string, t int) []string {
		return []string{"cvc5", "--incremental", fmt.Sprintf("--tlimit=%d", t*1000), f}
	}},
}

func runSolverCtx(parent context.Context, s solverSpec, file string, timeoutS int) (string, string) {
	r, o, _ := runSolverIn(parent, s, file, timeoutS)
	return r, o
}

func runSolver(s solverSpec, file string, timeoutS int) (string, string, float64) {
	return runSolverIn(context.Background(), s, file, timeoutS)
}

func runSolverIn(parent context.Context, s solverSpec, file string, timeoutS int) (string, string, float64) {
	ctx, cancel := context.WithTimeout(parent, time.Duration(timeoutS+2)*time.Second)
	defer cancel()
	argv := s.argv(file, timeoutS)
	cmd := exec.CommandContext(ctx, argv[0], argv[1:]...)
	var out bytes.Buffer
	cmd.Stdout = &out
	cmd.Stderr = &out
	t0 := time.Now()
	_ = cmd.Run()
	el := time.Since(t0).Seconds()
	text := out.String()
	first := strings.TrimSpace(strings.SplitN(text, "\n", 2)[0])
	switch first {
	case "unsat", "sat", "unknown":
		return first, text, el
	}
	if ctx.Err() != nil || strings.Contains(text, "timeout") {
		return "timeout", text, el
	}
	return "error", text, el
}

// runCover: one short z3-new run (soft limit ms, hard kill shortly after).
func runCover(file string, ms int) (string, string) {
	ctx, cancel := context.WithTimeout(context.Background(), time.Duration(ms+400)*time.Millisecond)
	defer cancel()
	cmd := exec.CommandContext(ctx, "z3-new", fmt.Sprintf("-t:%d", ms), file)
	var out bytes.Buffer
	cmd.Stdout = &out
	cmd.Stderr = &out
	_ = cmd.Run()
	text := out.String()
	first := strings.TrimSpace(strings.SplitN(text, "\n", 2)[0])
	switch first {
	case "unsat", "sat", "unknown":
		return first, text
	}
	return "timeout", text
}

// solveAll discharges the obligations in parallel. Strategy per obligation: z3-new first; if it
// does not answer unsat/sat, the other solvers are tried.
func solveAll(ctx *SMTCtx, obls []*Obligation, dir string, timeoutS int, workers int, requireAgree bool) {
	os.MkdirAll(dir, 0o755)
	var wg sync.WaitGroup
	ch := make(chan int)
	for w := 0; w < workers; w++ {
		wg.Add(1)
		go func() {
			defer wg.Done()
			for i := range ch {
				ob := obls[i]
				if ob.Trivial || ob.Query == "" {
					continue
				}
				var gv strings.Builder
				if len(ob.CETerms) > 0 {
					gv.WriteString("(get-value (")
					for _, t := range ob.CETerms {
						gv.WriteString(t.Term)
						gv.WriteString(" ")
					}
					gv.WriteString("))\n")
				}
				full := ctx.assemble(ob.Query + gv.String())
				text := strings.TrimSuffix(full, gv.String())
				ob.Size = len(text)
				file := filepath.Join(dir, fmt.Sprintf("q%05d.smt2", i))
				ob.File = file
				os.WriteFile(file, []byte(full), 0o644)
				t0 := time.Now()
				var agree []string
				type sres struct {
					name, res, out string
				}
				if strings.HasPrefix(ob.Kind, "cover") {
					// vacuity guard: expected answer is sat; quantified contexts often give unknown
					// a contradiction, if there is one, is found quickly; "sat" is rarely reported in
					// quantified contexts, so the budget is short and hard
					res, out := runCover(file, 1200)
					ob.Result, ob.Solver = res, solvers[0].name
					if res == "sat" {
						ob.Model = modelSummary(ob, out)
					}
				} else {
					// race the solvers; the first definite answer wins (thorough: all must agree)
					ch2 := make(chan sres, len(solvers))
					ctxs := make([]context.CancelFunc, len(solvers))
					for si, s := range solvers {
						c2, cancel := context.WithCancel(context.Background())
						ctxs[si] = cancel
						go func(s solverSpec, c2 context.Context) {
							res, out := runSolverCtx(c2, s, file, timeoutS)
							ch2 <- sres{s.name, res, out}
						}(s, c2)
					}
					var first *sres
					var fallback *sres
					for k := 0; k < len(solvers); k++ {
						r := <-ch2
						if r.res == "unsat" || r.res == "sat" {
							agree = append(agree, r.name+"="+r.res)
							if first == nil {
								rr := r
								first = &rr
								if !requireAgree {
									break
								}
							}
						} else if fallback == nil || (fallback.res == "error" && r.res != "error") {
							rr := r
							fallback = &rr
						}
						if r.res == "timeout" {
							ob.AnyTimeout = true
						}
					}
					for _, c := range ctxs {
						c()
					}
					if first != nil {
						ob.Result, ob.Solver = first.res, first.name
						if first.res == "sat" {
							ob.Model = modelSummary(ob, first.out)
						}
					} else if fallback != nil {
						ob.Result, ob.Solver = fallback.res, fallback.name
						if fallback.res == "error" {
							ob.Model = firstLines(fallback.out, 6)
						}
					}
				}
				if requireAgree && len(agree) > 1 {
					for _, a := range agree[1:] {
						if !strings.HasSuffix(a, "="+ob.Result) {
							ob.Result = "error"
							ob.Model = "solver disagreement: " + strings.Join(agree, " ")
						}
					}
				}
				if ob.Result != "unsat" && ob.Result != "sat" && !strings.HasPrefix(ob.Kind, "cover") {
					// no answer: look for a candidate counterexample with the quantified assumptions
					// dropped (fewer assumptions: a model is only a candidate, to be replayed)
					rq := relaxQuery(text, false)
					rqAll := relaxQuery(text, true)
					var small strings.Builder
					for _, t := range ob.CETerms {
						if strings.HasSuffix(t.Label, ".len") || strings.HasSuffix(t.Label, "rangeindex") {
							fmt.Fprintf(&small, "(assert (<= %s 3))\n", t.Term)
						}
					}
					rf := file + ".relaxed.smt2"
					for k, extra := range []string{small.String(), small.String(), ""} {
						base := rq
						if k > 0 {
							base = rqAll
						}
						body := strings.Replace(base, "(check-sat)", extra+"(check-sat)", 1)
						os.WriteFile(rf, []byte(body+gv.String()), 0o644)
						if res, out, _ := runSolver(solvers[0], rf, 5); res == "sat" {
							ob.Model = "candidate model (quantified assumptions dropped; not a proof of violation):\n" + modelSummary(ob, out)
							ob.Candidate = true
							break
						}
					}
					os.Remove(rf)
				}
				ob.TimeS = time.Since(t0).Seconds()
				if ob.Result == "unsat" && os.Getenv("GVERIF_KEEPALL") == "" {
					os.Remove(file)
				}
			}
		}()
	}
	for i := range obls {
		ch <- i
	}
	close(ch)
	wg.Wait()
}

func firstLines(s string, n int) string {
	ls := strings.Split(s, "\n")
	if len(ls) > n {
		ls = ls[:n]
	}
	return strings.Join(ls, "\n")
}

// modelSummary pairs the counterexample labels with the solver's get-value output.
func modelSummary(ob *Obligation, out string) string {
	i := strings.Index(out, "\n")
	if i < 0 {
		return ""
	}
	body := strings.TrimSpace(out[i+1:])
	vals := parseGetValue(body)
	if len(body) > 3000 {
		body = body[:3000] + " ..."
	}
	var sb strings.Builder
	if len(vals) == len(ob.CETerms) {
		ob.CEValues = map[string]string{}
		for i, t := range ob.CETerms {
			ob.CEValues[t.Label] = vals[i]
			fmt.Fprintf(&sb, "%s = %s\n", t.Label, vals[i])
		}
		return sb.String()
	}
	return fmt.Sprintf("(model output could not be paired with %d labels)\n", len(ob.CETerms)) + body
}

// parseGetValue parses "((term value) (term value) ...)" and returns the value texts.
func parseGetValue(s string) []string {
	i := strings.Index(s, "(")
	if i < 0 {
		return nil
	}
	pos := i + 1
	skip := func() {
		for pos < len(s) && (s[pos] == ' ' || s[pos] == '\n' || s[pos] == '\t' || s[pos] == '\r') {
			pos++
		}
	}
	var sexpr func() string
	sexpr = func() string {
		skip()
		if pos >= len(s) {
			return ""
		}
		start := pos
		if s[pos] == '(' {
			d := 0
			for pos < len(s) {
				if s[pos] == '(' {
					d++
				}
				if s[pos] == ')' {
					d--
					if d == 0 {
						pos++
						break
					}
				}
				pos++
			}
			return s[start:pos]
		}
		if s[pos] == '|' {
			pos++
			for pos < len(s) && s[pos] != '|' {
				pos++
			}
			pos++
			return s[start:pos]
		}
		for pos < len(s) && s[pos] != ' ' && s[pos] != ')' && s[pos] != '\n' {
			pos++
		}
		return s[start:pos]
	}
	var out []string
	for {
		skip()
		if pos >= len(s) || s[pos] != '(' {
			break
		}
		pos++ // open pair
		_ = sexpr()
		v := sexpr()
		skip()
		if pos < len(s) && s[pos] == ')' {
			pos++
		}
		v = strings.Join(strings.Fields(v), " ")
		if strings.HasPrefix(v, "(- ") && strings.HasSuffix(v, ")") {
			v = "-" + strings.TrimSpace(v[3:len(v)-1])
		}
		out = append(out, v)
	}
	return out
}


// relaxQuery removes every top-level assertion that contains a quantifier.
func relaxQuery(text string, all bool) string {
	var sb strings.Builder
	inPath := all
	for _, l := range strings.Split(text, "\n") {
		if l == "; --- path ---" {
			inPath = true
		}
		if inPath && strings.HasPrefix(l, "(assert ") && (strings.Contains(l, "(forall ") || strings.Contains(l, "(exists ")) && !strings.HasPrefix(l, "(assert (not ") {
			continue
		}
		sb.WriteString(l)
		sb.WriteByte('\n')
	}
	return sb.String()
}
