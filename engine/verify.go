package main

// Verification of one function against its contract; lemmas.

import (
	"fmt"
	"go/types"
	"sort"
	"strings"

	"golang.org/x/tools/go/ssa"
)

type FuncReport struct {
	Key         string   `json:"key"`
	Mode        string   `json:"mode"` // contract | sweep | trusted
	Obligations int      `json:"obligations"`
	Paths       int      `json:"paths"`
	Undecided   string   `json:"undecided,omitempty"`
	Props       []string `json:"props,omitempty"`
}

func (x *Exec) initGhosts() {
	for _, ra := range x.db.RawAxioms {
		x.ctx.addAxiom(ra[0], ra[1])
		x.trusted["raw axiom on "+ra[0]+": "+ra[1]]++
	}
	env := &SpecEnv{x: x, what: "ghost declarations"}
	for _, g := range x.db.Ghosts {
		func() {
			defer func() {
				if r := recover(); r != nil {
					panic(fmt.Sprintf("ghost %s: %v", g.Name, r))
				}
			}()
			x.ghostTy[g.Name] = env.resolveType(g.Ty)
		}()
	}
	// declare every uninterpreted spec function up front (raw axioms may mention any of them)
	var names []string
	for n, pd := range x.db.Pures {
		if pd.Body == nil {
			names = append(names, n)
		}
	}
	sort.Strings(names)
	for _, n := range names {
		pd := x.db.Pures[n]
		func() {
			defer func() {
				if r := recover(); r != nil {
					// types of a package that is not loaded for this property: the function cannot be
					// used in this run either
					if _, ok := r.(specErr); ok {
						return
					}
					panic(fmt.Sprintf("uninterp %s: %v", n, r))
				}
			}()
			se := &SpecEnv{x: x, st: x.scratchState(), vars: map[string]Val{}, pkg: x.L.typesPkg(pd.Pkg), what: "declaration of " + n}
			call := &ECall{Fn: n}
			for i, p := range pd.Params {
				ty := se.resolveType(p.Ty)
				vn := fmt.Sprintf("$a%d", i)
				if ty.G != nil {
					se.vars[vn] = x.zeroVal(ty.G)
				} else {
					se.vars[vn] = Val{T: "0", M: ty.M}
				}
				call.Args = append(call.Args, &EIdent{vn})
			}
			se.eval(call)
		}()
	}
	if _, ok := x.ghostTy["held"]; !ok {
		x.ghostTy["held"] = &STy{M: &MTy{Kind: "map", K: &STy{M: mathInt()}, V: &STy{M: mathInt()}}}
	}
}

// axiomsFor emits the axioms of the contract files (assumptions) into a state.
func (x *Exec) assumeAxioms(st *State, pkg *types.Package) {
	for _, a := range x.db.Axioms {
		env := &SpecEnv{x: x, st: st, vars: map[string]Val{}, what: "axiom " + a.Name}
		env.pkg = x.L.typesPkg(a.Pkg)
		if env.pkg == nil {
			env.pkg = pkg
		}
		st.assume(env.boolTerm(a.E))
		x.trusted["axiom "+a.Name+": "+strings.TrimSpace(a.Src)]++
	}
}

func (x *Exec) newTopState(fn *ssa.Function) *State {
	st := &State{heaps: map[string]string{}, cells: map[int]Val{}, iters: map[int]string{}, declared: map[string]bool{}, sc: &script{}}
	x.frameSeq++
	f := &Frame{fn: fn, env: map[ssa.Value]Val{}, loops: map[*ssa.BasicBlock]*loopCtx{}, id: x.frameSeq, callOrd: map[string]int{}, isTop: true}
	st.frames = []*Frame{f}
	return st
}

// verifyFunc generates the obligations of fn against con (con may be nil: safety sweep).
func (x *Exec) verifyFunc(fn *ssa.Function, con *Contract, mode string) (rep FuncReport) {
	x.curFn, x.curCon, x.mode = fn, con, mode
	x.curKey = x.fnName(fn)
	x.curPkg = fn.Pkg
	if x.curPkg == nil && fn.Parent() != nil {
		x.curPkg = fn.Parent().Pkg
	}
	x.instrOrd, x.ordinals = nil, nil
	// names of fresh constants and bound variables restart for every function: the text of a
	// function's queries (and with it the solvers' behaviour) is the same in every check it is part of
	x.ctx.mu.Lock()
	x.ctx.freshSeq = 0
	x.ctx.mu.Unlock()
	x.cellSeq = 0
	x.paths = 1
	x.entryVars = map[string]Val{}
	rep.Key, rep.Mode = x.curKey, mode
	if con != nil {
		rep.Props = con.Props
	}
	before := len(x.obls)
	defer func() {
		rep.Obligations = len(x.obls) - before
		rep.Paths = x.paths
		if r := recover(); r != nil {
			switch e := r.(type) {
			case unsupportedErr:
				rep.Undecided = "outside subset: " + e.msg
			case specErr:
				rep.Undecided = "contract error: " + e.msg
			default:
				panic(r)
			}
			// the function is outside the subset (or its contract is broken): it is reported as
			// undecided; obligations generated before the failure are dropped (neither proved nor violated)
			x.obls = x.obls[:before]
			x.gaps = append(x.gaps, Gap{x.curKey, rep.Undecided})
		}
	}()
	if len(fn.Blocks) == 0 {
		rep.Undecided = "no body"
		return
	}
	st := x.newTopState(fn)
	f := st.top()
	x.heap(st, "$alloc", "Int")
	for i, p := range fn.Params {
		c := x.freshConst(st, "in_"+sanitize(p.Name()), x.ctx.sortOf(p.Type()))
		x.assumeWF(st, c, p.Type())
		v := x.valFromTerm(c, p.Type())
		f.env[p] = v
		x.entryVars[p.Name()] = v
		if i == 0 && fn.Signature.Recv() != nil {
			x.entryVars["self"] = v
			if isPointer(p.Type()) {
				st.assume(not(eq(c, "0"))) // type invariant of the surface: methods are called on non-nil receivers
			}
		}
	}
	for _, fv := range fn.FreeVars {
		// closures verified stand-alone: free variables are arbitrary cells
		elem := fv.Type().(*types.Pointer).Elem()
		if isStruct(elem) || isArray(elem) {
			c := x.freshConst(st, "fv_"+sanitize(fv.Name()), "Int")
			x.assumeWF(st, c, fv.Type())
			st.assume(not(eq(c, "0")))
			f.env[fv] = x.valFromTerm(c, fv.Type())
			x.entryVars[fv.Name()] = f.env[fv]
		} else {
			x.cellSeq++
			c := x.freshConst(st, "fv_"+sanitize(fv.Name()), x.ctx.sortOf(elem))
			x.assumeWF(st, c, elem)
			st.cells[x.cellSeq] = x.valFromTerm(c, elem)
			f.env[fv] = Val{Ty: fv.Type(), Loc: &Loc{Kind: LCell, Cell: x.cellSeq, Elem: elem}}
			x.entryVars[fv.Name()] = st.cells[x.cellSeq]
		}
	}
	x.assumeAxioms(st, x.pkgTypes())
	env := x.baseEnv(st)
	if mode == "sweep" && (con == nil || len(con.Requires) == 0) {
		// surface type invariants: pointer arguments are non-nil; declared invariants of their types hold
		for _, p := range fn.Params {
			pt, ok := p.Type().Underlying().(*types.Pointer)
			if !ok {
				continue
			}
			v := f.env[p]
			st.assume(not(eq(v.T, "0")))
			if nt, ok := pt.Elem().(*types.Named); ok && nt.Obj().Pkg() != nil {
				for _, ti := range x.db.TypeInvs {
					if ti.Type == nt.Obj().Name() && ti.Pkg == nt.Obj().Pkg().Path() {
						te := &SpecEnv{x: x, st: st, oldHeaps: map[string]string{}, vars: map[string]Val{"self": v}, pkg: nt.Obj().Pkg(), what: "typeinv " + ti.Type}
						st.assume(te.boolTerm(ti.E))
						x.trusted["type invariant of "+ti.Type+" assumed at sweep entry: "+ti.Src]++
					}
				}
			}
		}
	}
	if con != nil {
		for _, l := range con.Lets {
			env.what = "let " + l.Name
			v := env.eval(l.E)
			x.entryVars[l.Name] = v
			env.vars[l.Name] = v
		}
		for _, r := range con.Requires {
			st.assume(x.evalClause(env, r, "precondition"))
		}
	}
	f.cont = func(st2 *State, results []Val) { x.postCheck(st2, fn, con, results) }
	x.run(st, fn.Blocks[0], nil, 0)
	return
}

func (x *Exec) pkgTypes() *types.Package {
	if x.curPkg != nil {
		return x.curPkg.Pkg
	}
	return nil
}

func (x *Exec) postCheck(st *State, fn *ssa.Function, con *Contract, results []Val) {
	if st.dead {
		return
	}
	env := x.baseEnv(st)
	bindResultNames(env.vars, fn.Signature, results)
	if con != nil && len(con.Requires) > 0 {
		// vacuity guard: this return must be reachable under the precondition (expected: sat)
		ob := &Obligation{Name: x.curKey + "#cover", Fn: x.curKey, Kind: "cover", Desc: "a return is reachable under the precondition", Path: append([]string(nil), st.pcDesc...)}
		ob.Query = st.scriptText() + "(check-sat)\n"
		x.obls = append(x.obls, ob)
	}
	if con != nil && x.mode != "sweep" {
		for i, c := range con.Ensures {
			x.oblige(st, "post", clauseLabel(c, i), x.evalClause(env, c, "postcondition"), c.Tags, "postcondition: "+c.Src)
		}
		if con.ModStated {
			x.frameCheck(st, con, env)
		}
	}
	// locks balanced
	if h, ok := st.heaps["G$held"]; ok && h != "G$held@e0" {
		listed := false
		if con != nil {
			for _, m := range con.Modifies {
				if strings.TrimSpace(m) == "held" {
					listed = true
				}
			}
		}
		if !listed {
			x.oblige(st, "lock:balance", "", eq(h, "G$held@e0"), []string{"C18"}, "every lock acquired by the function is released on return")
		}
	}
}

// frameCheck: nothing outside the modifies clause changed (at references that existed on entry).
func (x *Exec) frameCheck(st *State, con *Contract, env *SpecEnv) {
	whole := map[string]bool{}
	point := map[string][]string{}
	oldEnv := *env
	for _, item := range con.Modifies {
		item = strings.TrimSpace(strings.TrimPrefix(strings.TrimSpace(item), "fresh "))
		if item == "all" {
			return
		}
		if _, ok := x.ghostTy[item]; ok {
			whole["G$"+item] = true
			continue
		}
		tgt := modTarget{heaps: map[string]string{}}
		if x.typeLevelModifies(env.pkg, item, &tgt) {
			if !strings.HasPrefix(strings.TrimSpace(strings.Join(con.Modifies, ",")), "\x00") {
				for n := range tgt.heaps {
					whole[n] = true
				}
			}
			continue
		}
		// pointwise items are evaluated in the pre-state
		e2 := oldEnv
		e2.what = "modifies " + item
		var pms []pointMod
		e2.withOld(func() Val { pms = x.pointModifies(&e2, item); return Val{} })
		for _, p := range pms {
			point[p.heap] = append(point[p.heap], p.at)
		}
	}
	// "fresh T.*" items allow changes at fresh references only: same obligation as unlisted heaps
	freshOnly := map[string]bool{}
	for _, item := range con.Modifies {
		it := strings.TrimSpace(item)
		if strings.HasPrefix(it, "fresh ") {
			tgt := modTarget{heaps: map[string]string{}}
			if x.typeLevelModifies(env.pkg, strings.TrimSpace(it[6:]), &tgt) {
				for n := range tgt.heaps {
					freshOnly[n] = true
					delete(whole, n)
				}
			}
		}
	}
	var names []string
	for n := range st.heaps {
		names = append(names, n)
	}
	sort.Strings(names)
	for _, n := range names {
		cur := st.heaps[n]
		entry := n + "@e0"
		if n == "$alloc" || cur == entry || whole[n] {
			continue
		}
		if st.epoch > 0 && !x.pinned(n) {
			// a havoc-all happened: the frame cannot be established
			x.oblige(st, "frame", n, "false", nil, "frame: an unknown call may have modified "+n)
			continue
		}
		if !st.declared[entry] {
			continue
		}
		if strings.HasPrefix(n, "G$") || strings.HasPrefix(n, "GV$") {
			x.oblige(st, "frame", n, eq(cur, entry), nil, "frame: "+n+" is not in the modifies clause and must be unchanged")
			continue
		}
		var excl []string
		for _, at := range point[n] {
			excl = append(excl, not(eq("r", at)))
		}
		cond := and(append([]string{"(< r $alloc@e0)", "(<= 0 r)"}, excl...)...)
		x.oblige(st, "frame", n, fmt.Sprintf("(forall ((r Int)) (=> %s (= (select %s r) (select %s r))))", cond, cur, entry), nil,
			"frame: "+n+" unchanged outside the modifies clause for objects that existed on entry")
	}
}

// verifyLemma proves a lemma from the contracts' spec functions only.
func (x *Exec) verifyLemma(l *LemmaDef) (rep FuncReport) {
	x.curFn, x.curCon, x.mode = nil, nil, "lemma"
	x.curKey = l.Pkg + ".lemma:" + l.Name
	x.curPkg = nil
	if p := x.L.byPath[l.Pkg]; p != nil {
		x.curPkg = x.L.prog.Package(p.Types)
	}
	x.instrOrd, x.ordinals = nil, nil
	x.entryVars = map[string]Val{}
	rep.Key, rep.Mode, rep.Props = x.curKey, "lemma", l.Tags
	before := len(x.obls)
	defer func() {
		rep.Obligations = len(x.obls) - before
		if r := recover(); r != nil {
			switch e := r.(type) {
			case unsupportedErr:
				rep.Undecided = "outside subset: " + e.msg
			case specErr:
				rep.Undecided = "contract error: " + e.msg
			default:
				panic(r)
			}
			x.gaps = append(x.gaps, Gap{x.curKey, rep.Undecided})
		}
	}()
	st := x.newTopState(nil)
	x.heap(st, "$alloc", "Int")
	env := &SpecEnv{x: x, st: st, oldHeaps: map[string]string{}, vars: map[string]Val{}, what: "lemma " + l.Name}
	env.pkg = x.L.typesPkg(l.Pkg)
	for _, p := range l.Params {
		ty := env.resolveType(p.Ty)
		c := x.freshConst(st, "lm_"+sanitize(p.Name), env.sortOfS(ty))
		var v Val
		if ty.G != nil {
			x.assumeWF(st, c, ty.G)
			v = x.valFromTerm(c, ty.G)
		} else {
			v = Val{T: c, M: ty.M}
		}
		env.vars[p.Name] = v
		x.entryVars[p.Name] = v
	}
	x.assumeAxioms(st, env.pkg)
	for _, r := range l.Requires {
		st.assume(x.evalClause(env, r, "lemma precondition"))
	}
	for i, c := range l.Ensures {
		tags := c.Tags
		if len(tags) == 0 {
			tags = l.Tags
		}
		x.oblige(st, "lemma", clauseLabel(c, i), x.evalClause(env, c, "lemma conclusion"), tags, "lemma "+l.Name+": "+c.Src)
	}
	return
}
