package main

// Evaluation of contract expressions to SMT terms in a symbolic state.

import (
	"fmt"
	"go/ast"
	"go/parser"
	"go/types"
	"strings"
)

type SpecEnv struct {
	x        *Exec
	st       *State
	oldHeaps map[string]string
	vars     map[string]Val
	oldVars  map[string]Val
	lookup   func(name string) (Val, bool)
	pkg      *types.Package
	inOld    bool
	depth    int
	what     string
}

type specErr struct{ msg string }

func (e *SpecEnv) fail(format string, a ...interface{}) {
	panic(specErr{fmt.Sprintf(format, a...) + " [in " + e.what + "]"})
}

func (e *SpecEnv) child() *SpecEnv {
	n := *e
	n.vars = make(map[string]Val, len(e.vars)+4)
	for k, v := range e.vars {
		n.vars[k] = v
	}
	return &n
}

// withOld runs f with the state's heap view switched to the old (pre) heaps.
func (e *SpecEnv) withOld(f func() Val) Val {
	if e.inOld {
		return f()
	}
	if e.oldHeaps == nil {
		e.fail("old() is not available here")
	}
	saved, savedEpoch := e.st.heaps, e.st.epoch
	view := make(map[string]string, len(e.oldHeaps))
	oldEpoch := 0
	for k, v := range e.oldHeaps {
		if k == "$epoch" {
			fmt.Sscan(v, &oldEpoch)
			continue
		}
		view[k] = v
	}
	e.st.heaps, e.st.epoch = view, oldEpoch
	e.inOld = true
	defer func() {
		if oldEpoch == savedEpoch {
			// heaps first touched during old-evaluation have the same canonical version in both views
			for k, v := range view {
				if _, ok := saved[k]; !ok {
					saved[k] = v
				}
			}
		}
		e.st.heaps, e.st.epoch = saved, savedEpoch
		e.inOld = false
	}()
	return f()
}

func mathInt() *MTy  { return &MTy{Kind: "int"} }
func mathBool() *MTy { return &MTy{Kind: "bool"} }

func (e *SpecEnv) sortOfS(t *STy) string {
	if t.G != nil {
		return e.x.ctx.sortOf(t.G)
	}
	switch t.M.Kind {
	case "int":
		return "Int"
	case "bool":
		return "Bool"
	case "str":
		return "Str"
	case "set":
		return fmt.Sprintf("(Array %s Bool)", e.sortOfS(t.M.K))
	case "map":
		return fmt.Sprintf("(Array %s %s)", e.sortOfS(t.M.K), e.sortOfS(t.M.V))
	}
	e.fail("sort of math type %s", t.M.Kind)
	return ""
}

func (e *SpecEnv) styOf(v Val) *STy {
	if v.Ty != nil {
		return &STy{G: v.Ty}
	}
	return &STy{M: v.M}
}

// resolveType parses a type text in the context of the contract's package.
func (e *SpecEnv) resolveType(text string) *STy {
	text = strings.TrimSpace(text)
	if strings.HasPrefix(text, "mset[") && strings.HasSuffix(text, "]") {
		return &STy{M: &MTy{Kind: "set", K: e.resolveType(text[5 : len(text)-1])}}
	}
	if strings.HasPrefix(text, "mmap[") {
		d, i := 0, 4
		for ; i < len(text); i++ {
			if text[i] == '[' {
				d++
			}
			if text[i] == ']' {
				d--
				if d == 0 {
					break
				}
			}
		}
		return &STy{M: &MTy{Kind: "map", K: e.resolveType(text[5:i]), V: e.resolveType(text[i+1:])}}
	}
	switch text {
	case "mint":
		return &STy{M: mathInt()}
	}
	ex, err := parser.ParseExpr(text)
	if err != nil {
		e.fail("type %q: %v", text, err)
	}
	return &STy{G: e.goType(ex)}
}

func (e *SpecEnv) goType(ex ast.Expr) types.Type {
	switch t := ex.(type) {
	case *ast.Ident:
		if o := types.Universe.Lookup(t.Name); o != nil {
			if tn, ok := o.(*types.TypeName); ok {
				return tn.Type()
			}
		}
		if e.pkg != nil {
			if o := e.pkg.Scope().Lookup(t.Name); o != nil {
				if tn, ok := o.(*types.TypeName); ok {
					return tn.Type()
				}
			}
		}
		e.fail("unknown type %s", t.Name)
	case *ast.StarExpr:
		return types.NewPointer(e.goType(t.X))
	case *ast.ArrayType:
		if t.Len == nil {
			return types.NewSlice(e.goType(t.Elt))
		}
		if bl, ok := t.Len.(*ast.BasicLit); ok {
			var n int64
			fmt.Sscan(bl.Value, &n)
			return types.NewArray(e.goType(t.Elt), n)
		}
	case *ast.MapType:
		return types.NewMap(e.goType(t.Key), e.goType(t.Value))
	case *ast.InterfaceType:
		return types.NewInterfaceType(nil, nil)
	case *ast.SelectorExpr:
		if id, ok := t.X.(*ast.Ident); ok {
			if ty := e.x.L.findTypeQualified(e.pkg, id.Name, t.Sel.Name); ty != nil {
				return ty
			}
			e.fail("unknown type %s.%s", id.Name, t.Sel.Name)
		}
	case *ast.ParenExpr:
		return e.goType(t.X)
	}
	e.fail("unsupported type expression")
	return nil
}

func (e *SpecEnv) boolTerm(ex Expr) string {
	v := e.eval(ex)
	if !e.isBool(v) {
		e.fail("expected a boolean: %s", ex)
	}
	return v.T
}

func (e *SpecEnv) isBool(v Val) bool {
	if v.Ty != nil {
		b, ok := v.Ty.Underlying().(*types.Basic)
		return ok && b.Info()&types.IsBoolean != 0
	}
	return v.M != nil && v.M.Kind == "bool"
}

func isStringTy(t types.Type) bool {
	if t == nil {
		return false
	}
	b, ok := t.Underlying().(*types.Basic)
	return ok && b.Info()&types.IsString != 0
}

func mkBool(t string) Val { return Val{T: t, Ty: types.Typ[types.Bool]} }
func mkInt(t string) Val  { return Val{T: t, Ty: types.Typ[types.Int]} }

func (e *SpecEnv) eval(ex Expr) Val {
	x := e.x
	switch t := ex.(type) {
	case *EInt:
		return mkInt(intLit(t.V))
	case *EBool:
		if t.V {
			return mkBool("true")
		}
		return mkBool("false")
	case *EStr:
		return Val{T: x.ctx.strLit(t.V), Ty: types.Typ[types.String]}
	case *ENil:
		return Val{T: "nil"}
	case *EIdent:
		return e.ident(t.Name)
	case *EOld:
		return e.withOld(func() Val { return e.eval(t.X) })
	case *ELet:
		v := e.eval(t.V)
		c := e.child()
		c.vars[t.Name] = v
		return c.eval(t.B)
	case *EUn:
		v := e.eval(t.X)
		switch t.Op {
		case "!":
			return mkBool(not(v.T))
		case "-":
			return mkInt("(- " + v.T + ")")
		case "*":
			if v.Loc == nil {
				e.fail("deref of non-pointer %s", t.X)
			}
			return x.load(e.st, v.Loc)
		}
	case *EBin:
		return e.bin(t)
	case *EIte:
		c := e.boolTerm(t.C)
		a, b := e.eval(t.A), e.eval(t.B)
		r := a
		r.T = ite(c, e.term(a, b), e.term(b, a))
		r.Loc = nil
		if a.Loc != nil {
			r = x.valFromTerm(r.T, a.Ty)
		}
		return r
	case *ESel:
		return e.sel(e.eval(t.X), t.F, ex)
	case *EIdx:
		return e.index(e.eval(t.X), e.eval(t.I), ex)
	case *EUpd:
		m := e.eval(t.X)
		if m.M == nil || (m.M.Kind != "map" && m.M.Kind != "set") {
			e.fail("update of non-math map %s", t.X)
		}
		i, v := e.eval(t.I), e.eval(t.V)
		r := m
		r.T = sto(m.T, x.termOf(e.st, i), x.termOf(e.st, v))
		return r
	case *EQuant:
		return e.quant(t)
	case *ECall:
		return e.call(t)
	}
	e.fail("cannot evaluate %s", ex)
	return Val{}
}

// term returns v's term; nil literals are typed by the other operand.
func (e *SpecEnv) term(v, other Val) string {
	if v.T == "nil" && v.Ty == nil && v.M == nil {
		if other.Ty != nil {
			return e.x.ctx.zeroOf(other.Ty)
		}
		return "0"
	}
	return e.x.termOf(e.st, v)
}

func (e *SpecEnv) ident(name string) Val {
	if e.inOld && e.oldVars != nil {
		if v, ok := e.oldVars[name]; ok {
			return v
		}
	}
	if v, ok := e.vars[name]; ok {
		return v
	}
	if e.lookup != nil {
		if v, ok := e.lookup(name); ok {
			return v
		}
	}
	// ghost variable
	if gt, ok := e.x.ghostTy[name]; ok {
		return Val{T: e.x.heap(e.st, "G$"+name, e.sortOfS(gt)), M: gt.M, Ty: gt.G}
	}
	// package-level variable / constant of the contract's package
	if e.pkg != nil {
		if o := e.pkg.Scope().Lookup(name); o != nil {
			switch ob := o.(type) {
			case *types.Var:
				hn := "GV$" + e.pkg.Path() + "." + name
				if _, ok := e.x.heapElem[hn]; !ok {
					e.x.heapElem[hn] = ob.Type()
				}
				return e.x.load(e.st, &Loc{Kind: LGlobal, Global: hn, Elem: ob.Type()})
			case *types.Const:
				return e.constVal(ob)
			}
		}
	}
	e.fail("unknown identifier %s", name)
	return Val{}
}

func (e *SpecEnv) constVal(c *types.Const) Val {
	if isStringTy(c.Type()) {
		s := c.Val().ExactString()
		if u, err := unquote(s); err == nil {
			s = u
		}
		return Val{T: e.x.ctx.strLit(s), Ty: c.Type()}
	}
	return Val{T: intLit(c.Val().ExactString()), Ty: c.Type()}
}

func unquote(s string) (string, error) {
	if len(s) >= 2 && s[0] == '"' {
		var out string
		_, err := fmt.Sscanf(s, "%q", &out)
		return out, err
	}
	return s, nil
}

func (e *SpecEnv) bin(t *EBin) Val {
	x := e.x
	switch t.Op {
	case "&&":
		return mkBool(and(e.boolTerm(t.X), e.boolTerm(t.Y)))
	case "||":
		return mkBool(or(e.boolTerm(t.X), e.boolTerm(t.Y)))
	case "==>":
		return mkBool(implies(e.boolTerm(t.X), e.boolTerm(t.Y)))
	case "<==>":
		return mkBool(eq(e.boolTerm(t.X), e.boolTerm(t.Y)))
	}
	a, b := e.eval(t.X), e.eval(t.Y)
	switch t.Op {
	case "==", "!=":
		var r string
		if sl, ok := tyUnder(a).(*types.Slice); ok && b.T == "nil" && b.Ty == nil {
			_ = sl
			r = eq("(s_arr "+a.T+")", "0")
		} else if _, ok := tyUnder(b).(*types.Slice); ok && a.T == "nil" && a.Ty == nil {
			r = eq("(s_arr "+b.T+")", "0")
		} else {
			r = eq(e.term(a, b), e.term(b, a))
		}
		if t.Op == "!=" {
			r = not(r)
		}
		return mkBool(r)
	case "<", "<=", ">", ">=":
		if isStringTy(a.Ty) {
			switch t.Op {
			case "<":
				return mkBool(app("str_lt", a.T, b.T))
			case ">":
				return mkBool(app("str_lt", b.T, a.T))
			case "<=":
				return mkBool(not(app("str_lt", b.T, a.T)))
			default:
				return mkBool(not(app("str_lt", a.T, b.T)))
			}
		}
		return mkBool(app(t.Op, a.T, b.T))
	case "+":
		if isStringTy(a.Ty) {
			return Val{T: app("str_cat", a.T, b.T), Ty: a.Ty}
		}
		return mkInt(app("+", a.T, b.T))
	case "-":
		return mkInt(app("-", a.T, b.T))
	case "*":
		return mkInt(app("*", a.T, b.T))
	case "/":
		return mkInt(app("div", a.T, b.T))
	case "%":
		return mkInt(app("mod", a.T, b.T))
	case "in":
		if mt, ok := tyUnder(b).(*types.Map); ok {
			dn, ds, _, _ := x.mapHeaps(mt)
			return mkBool(and(not(eq(b.T, "0")), sel(sel(x.heap(e.st, dn, ds), b.T), x.termOf(e.st, a))))
		}
		if b.M != nil && (b.M.Kind == "set" || b.M.Kind == "map") {
			return mkBool(sel(b.T, x.termOf(e.st, a)))
		}
		e.fail("'in' needs a map or set: %s", t.Y)
	}
	e.fail("operator %s", t.Op)
	return Val{}
}

func tyUnder(v Val) types.Type {
	if v.Ty == nil {
		return nil
	}
	return v.Ty.Underlying()
}

// findField finds a (possibly promoted) field by name; returns the index path.
func findField(t types.Type, name string, depth int) ([]int, bool) {
	st, ok := t.Underlying().(*types.Struct)
	if !ok {
		if p, okp := t.Underlying().(*types.Pointer); okp {
			st, ok = p.Elem().Underlying().(*types.Struct)
		}
		if !ok {
			return nil, false
		}
	}
	for i := 0; i < st.NumFields(); i++ {
		if st.Field(i).Name() == name {
			return []int{i}, true
		}
	}
	if depth <= 0 {
		return nil, false
	}
	for i := 0; i < st.NumFields(); i++ {
		if st.Field(i).Embedded() {
			if p, ok := findField(st.Field(i).Type(), name, depth-1); ok {
				return append([]int{i}, p...), true
			}
		}
	}
	return nil, false
}

func (e *SpecEnv) sel(v Val, f string, ex Expr) Val {
	x := e.x
	if len(v.Tup) > 0 {
		var i int
		if _, err := fmt.Sscan(f, &i); err == nil && i < len(v.Tup) {
			return v.Tup[i]
		}
		e.fail("bad tuple selector %s", ex)
	}
	if v.Ty == nil {
		e.fail("field %s of non-Go value in %s", f, ex)
	}
	// slice pseudo-fields
	if _, ok := v.Ty.Underlying().(*types.Slice); ok {
		switch f {
		case "arr":
			return mkInt("(s_arr " + v.T + ")")
		case "off":
			return mkInt("(s_off " + v.T + ")")
		}
	}
	if _, ok := v.Ty.Underlying().(*types.Interface); ok {
		switch f {
		case "tag":
			return mkInt("(i_tag " + v.T + ")")
		case "val":
			return mkInt("(i_val " + v.T + ")")
		}
		// an interface value boxed at this very call site (`&invoke.Args{...}` passed as CNIArgs):
		// its dynamic value is statically known, fields are those of the boxed value
		if v.Inner != nil {
			return e.sel(*v.Inner, f, ex)
		}
	}
	path, ok := findField(v.Ty, f, 4)
	if !ok {
		e.fail("no field %s in %s (%s)", f, v.Ty, ex)
	}
	cur := v
	for _, idx := range path {
		if cur.Loc != nil {
			stt, ok := cur.Loc.Elem.Underlying().(*types.Struct)
			if !ok {
				e.fail("selector through non-struct pointer in %s", ex)
			}
			l := &Loc{Kind: LField, Parent: cur.Loc, Field: idx, Elem: stt.Field(idx).Type()}
			cur = x.load(e.st, l)
			continue
		}
		if p, isP := cur.Ty.Underlying().(*types.Pointer); isP {
			l := &Loc{Kind: LRef, Ref: cur.T, Elem: p.Elem()}
			stt := p.Elem().Underlying().(*types.Struct)
			cur = x.load(e.st, &Loc{Kind: LField, Parent: l, Field: idx, Elem: stt.Field(idx).Type()})
			continue
		}
		sn, stt := x.structCanon(cur.Ty)
		cur = x.valFromTerm(fmt.Sprintf("(%s %s)", x.ctx.fieldAcc(sn, stt, idx), cur.T), stt.Field(idx).Type())
	}
	return cur
}

func (e *SpecEnv) index(a, i Val, ex Expr) Val {
	x := e.x
	if a.M != nil {
		switch a.M.Kind {
		case "map":
			r := Val{T: sel(a.T, x.termOf(e.st, i)), Ty: a.M.V.G, M: a.M.V.M}
			if r.Ty != nil {
				return x.valFromTerm(r.T, r.Ty)
			}
			return r
		case "set":
			return mkBool(sel(a.T, x.termOf(e.st, i)))
		}
		e.fail("index of math value %s", ex)
	}
	switch u := tyUnder(a).(type) {
	case *types.Slice:
		hn, hs := x.elemHeap(u.Elem())
		return x.valFromTerm(app(x.atFn(u.Elem()), x.heap(e.st, hn, hs), a.T, i.T), u.Elem())
	case *types.Array:
		return x.valFromTerm(sel(a.T, i.T), u.Elem())
	case *types.Map:
		_, _, vn, vs := x.mapHeaps(u)
		return x.valFromTerm(sel(sel(x.heap(e.st, vn, vs), a.T), x.termOf(e.st, i)), u.Elem())
	case *types.Basic:
		if isStringTy(a.Ty) {
			return mkInt(app("str_at", a.T, i.T))
		}
	case *types.Pointer:
		if at, ok := u.Elem().Underlying().(*types.Array); ok {
			hn, hs := x.elemHeap(at.Elem())
			return x.valFromTerm(sel(sel(x.heap(e.st, hn, hs), a.T), i.T), at.Elem())
		}
	}
	e.fail("cannot index %s", ex)
	return Val{}
}

func (e *SpecEnv) quant(q *EQuant) Val {
	c := e.child()
	var binders []string
	for _, v := range q.Vars {
		ty := c.resolveType(v.Ty)
		e.x.cellSeq++
		name := fmt.Sprintf("q_%s_%d", v.Name, e.x.cellSeq)
		binders = append(binders, fmt.Sprintf("(%s %s)", name, c.sortOfS(ty)))
		if ty.G != nil {
			c.vars[v.Name] = e.x.valFromTerm(name, ty.G)
		} else {
			c.vars[v.Name] = Val{T: name, M: ty.M}
		}
		if c.oldVars != nil {
			// shadow entry values with the bound variable
			ov := make(map[string]Val, len(c.oldVars))
			for k, vv := range c.oldVars {
				ov[k] = vv
			}
			delete(ov, v.Name)
			c.oldVars = ov
		}
	}
	body := c.boolTerm(q.Body)
	var pats []string
	for _, tr := range q.Trig {
		var ts []string
		for _, te := range tr {
			tv := c.eval(te)
			tt := c.x.termOf(c.st, tv)
			if strings.HasPrefix(tt, "(and ") {
				// `k in m` on a Go map is (and (m != nil) (select dom k)): the pattern is the select
				if ps := flattenAnd(tt); len(ps) > 0 {
					tt = ps[len(ps)-1]
				}
			}
			if tv.Ty != nil || tv.M != nil {
				c.x.ctx.notePatSort(tt, c.sortOfS(c.styOf(tv)))
			}
			ts = append(ts, tt)
		}
		pats = append(pats, ":pattern ("+strings.Join(ts, " ")+")")
	}
	if len(pats) > 0 {
		body = "(! " + body + " " + strings.Join(pats, " ") + ")"
	}
	kw := "exists"
	if q.Forall {
		kw = "forall"
	}
	return mkBool(fmt.Sprintf("(%s (%s) %s)", kw, strings.Join(binders, " "), body))
}

func (e *SpecEnv) call(c *ECall) Val {
	x := e.x
	switch c.Fn {
	case "len":
		v := e.eval(c.Args[0])
		switch u := tyUnder(v).(type) {
		case *types.Slice:
			return mkInt("(s_len " + v.T + ")")
		case *types.Basic:
			return mkInt("(strlen " + v.T + ")")
		case *types.Map:
			dn, ds, _, _ := x.mapHeaps(u)
			return mkInt(ite(eq(v.T, "0"), "0", app(x.cardFn(x.ctx.sortOf(u.Key())), sel(x.heap(e.st, dn, ds), v.T))))
		case *types.Array:
			return mkInt(fmt.Sprint(u.Len()))
		}
		if v.M != nil && v.M.Kind == "set" {
			return mkInt(app(x.cardFn(e.sortOfS(v.M.K)), v.T))
		}
		e.fail("len of %s", c.Args[0])
	case "cap":
		v := e.eval(c.Args[0])
		return mkInt("(s_cap " + v.T + ")")
	case "dom":
		v := e.eval(c.Args[0])
		if mt, ok := tyUnder(v).(*types.Map); ok {
			dn, ds, _, _ := x.mapHeaps(mt)
			return Val{T: sel(x.heap(e.st, dn, ds), v.T), M: &MTy{Kind: "set", K: &STy{G: mt.Key()}}}
		}
		e.fail("dom of non-map")
	case "vals":
		v := e.eval(c.Args[0])
		if mt, ok := tyUnder(v).(*types.Map); ok {
			_, _, vn, vs := x.mapHeaps(mt)
			return Val{T: sel(x.heap(e.st, vn, vs), v.T), M: &MTy{Kind: "map", K: &STy{G: mt.Key()}, V: &STy{G: mt.Elem()}}}
		}
		e.fail("vals of non-map")
	case "emptyset":
		ty := e.resolveType(c.Args[0].String())
		return Val{T: fmt.Sprintf("((as const (Array %s Bool)) false)", e.sortOfS(ty)), M: &MTy{Kind: "set", K: ty}}
	case "unchanged":
		var cs []string
		for _, a := range c.Args {
			now := e.eval(a)
			old := e.withOld(func() Val { return e.eval(a) })
			cs = append(cs, eq(x.termOf(e.st, now), x.termOf(e.st, old)))
		}
		return mkBool(and(cs...))
	case "ptr":
		// lock identity of a mutex given by pointer: pointers, field addresses and keyed locks live
		// in disjoint residue classes of the lock-id space
		v := e.eval(c.Args[0])
		return mkInt("(* 3 " + x.termOf(e.st, v) + ")")
	case "lockfield":
		// lockfield(p, f): lock identity of the mutex VALUE field f of the struct p points to
		// (a *sync.Mutex obtained as &p.f); matches the id used for `guarded ... by f`
		if len(c.Args) != 2 {
			e.fail("lockfield(p, field)")
		}
		pv := e.eval(c.Args[0])
		fid, ok := c.Args[1].(*EIdent)
		if !ok {
			e.fail("lockfield: field name expected")
		}
		pt, ok := pv.Ty.Underlying().(*types.Pointer)
		if !ok {
			e.fail("lockfield: pointer to struct expected")
		}
		stt, ok := pt.Elem().Underlying().(*types.Struct)
		if !ok {
			e.fail("lockfield: pointer to struct expected")
		}
		for i := 0; i < stt.NumFields(); i++ {
			if stt.Field(i).Name() == fid.Name {
				sn, _ := x.structCanon(pt.Elem())
				return mkInt(fmt.Sprintf("(* 3 (fieldptr %s %d))", x.termOf(e.st, pv), x.ctx.fieldID(sn, fid.Name)))
			}
		}
		e.fail("lockfield: no field %s", fid.Name)
		return Val{}
	case "allocated":
		// the reference existed in the pre-state
		v := e.eval(c.Args[0])
		if e.oldHeaps == nil && !e.inOld {
			// in a precondition evaluated at a call site "allocated" means: exists now
			return mkBool(fmt.Sprintf("(< %s %s)", refTerm(v), x.heap(e.st, "$alloc", "Int")))
		}
		a := e.withOld(func() Val { return mkInt(x.heap(e.st, "$alloc", "Int")) })
		return mkBool(fmt.Sprintf("(< %s %s)", refTerm(v), a.T))
	case "fresh":
		v := e.eval(c.Args[0])
		a := e.withOld(func() Val { return mkInt(x.heap(e.st, "$alloc", "Int")) })
		return mkBool(fmt.Sprintf("(>= %s %s)", refTerm(v), a.T))
	case "int", "uint32", "int64", "uint16", "uint8", "uint64":
		return mkInt(e.eval(c.Args[0]).T)
	case "istype":
		// istype(T, e): the dynamic type of interface value e is the named type T
		if len(c.Args) != 2 {
			e.fail("istype(T, e)")
		}
		var ty types.Type
		switch tn := c.Args[0].(type) {
		case *EIdent:
			ty = e.resolveType(tn.Name).G
		case *ESel:
			if id, ok := tn.X.(*EIdent); ok {
				ty = e.x.L.findTypeQualified(e.pkg, id.Name, tn.F)
			}
		}
		if ty == nil {
			e.fail("istype: unknown type")
		}
		iv := e.eval(c.Args[1])
		return mkBool(fmt.Sprintf("(= (i_tag %s) %d)", iv.T, x.ctx.typeTag(ty)))
	case "substr":
		// substr(s, lo, hi): the Go expression s[lo:hi] on strings
		if len(c.Args) != 3 {
			e.fail("substr(s, lo, hi)")
		}
		sv, lo, hi := e.eval(c.Args[0]), e.eval(c.Args[1]), e.eval(c.Args[2])
		return Val{T: app("str_sub", x.termOf(e.st, sv), lo.T, hi.T), Ty: types.Typ[types.String]}
	case "min":
		a, b := e.eval(c.Args[0]), e.eval(c.Args[1])
		return mkInt(ite(app("<=", a.T, b.T), a.T, b.T))
	case "max":
		a, b := e.eval(c.Args[0]), e.eval(c.Args[1])
		return mkInt(ite(app(">=", a.T, b.T), a.T, b.T))
	case "as":
		// as(T, x): the payload of interface value x viewed as *T (T a named struct type)
		if len(c.Args) != 2 {
			e.fail("as(T, x)")
		}
		var ty types.Type
		switch tn := c.Args[0].(type) {
		case *EIdent:
			ty = e.resolveType(tn.Name).G
		case *ESel:
			if id, ok := tn.X.(*EIdent); ok {
				ty = e.x.L.findTypeQualified(e.pkg, id.Name, tn.F)
			}
		}
		if ty == nil {
			e.fail("as: unknown type %s", c.Args[0])
		}
		v := e.eval(c.Args[1])
		if _, ok := tyUnder(v).(*types.Interface); !ok {
			e.fail("as: %s is not an interface value", c.Args[1])
		}
		return x.valFromTerm("(i_val "+v.T+")", types.NewPointer(ty))
	case "sameElems":
		// sameElems(s): every backing array of s's element type that existed in the pre-state is
		// unchanged (frame of the element heap)
		v := e.eval(c.Args[0])
		sl, ok := tyUnder(v).(*types.Slice)
		if !ok {
			e.fail("sameElems needs a slice expression")
		}
		hn, hs := x.elemHeap(sl.Elem())
		now := x.heap(e.st, hn, hs)
		old := e.withOld(func() Val { return Val{T: x.heap(e.st, hn, hs)} })
		a := e.withOld(func() Val { return mkInt(x.heap(e.st, "$alloc", "Int")) })
		if now == old.T {
			return mkBool("true")
		}
		return mkBool(fmt.Sprintf("(forall ((r Int)) (! (=> (< r %s) (= (select %s r) (select %s r))) :pattern ((select %s r))))", a.T, now, old.T, now))
	case "isnil":
		v := e.eval(c.Args[0])
		return mkBool(eq(e.term(Val{T: "nil"}, v), x.termOf(e.st, v)))
	}
	fname := c.Fn
	if i := strings.LastIndex(fname, "."); i >= 0 {
		fname = fname[i+1:]
	}
	pd, ok := e.x.db.Pures[fname]
	if !ok {
		e.fail("unknown spec function %s", c.Fn)
	}
	if len(pd.Params) != len(c.Args) {
		e.fail("%s expects %d arguments", c.Fn, len(pd.Params))
	}
	var args []Val
	for _, a := range c.Args {
		args = append(args, e.eval(a))
	}
	defPkg := e.x.L.typesPkg(pd.Pkg)
	if pd.Rec {
		return e.recCall(pd, args)
	}
	if pd.Body != nil {
		if e.depth > 40 {
			e.fail("spec function expansion too deep (recursive?) at %s", c.Fn)
		}
		n := &SpecEnv{x: e.x, st: e.st, oldHeaps: e.oldHeaps, vars: map[string]Val{}, pkg: defPkg, inOld: e.inOld, depth: e.depth + 1, what: e.what + " > " + c.Fn}
		if defPkg == nil {
			n.pkg = e.pkg
		}
		for i, p := range pd.Params {
			a := args[i]
			if a.T == "nil" && a.Ty == nil && a.M == nil {
				ty := n.resolveType(p.Ty)
				a = e.x.zeroVal(ty.G)
			}
			n.vars[p.Name] = a
		}
		return n.eval(pd.Body)
	}
	// uninterpreted function
	n := &SpecEnv{x: e.x, st: e.st, pkg: defPkg, what: e.what}
	if defPkg == nil {
		n.pkg = e.pkg
	}
	var sorts, terms []string
	for i, p := range pd.Params {
		ty := n.resolveType(p.Ty)
		if ty.G != nil {
			if sl, ok := ty.G.Underlying().(*types.Slice); ok {
				es := x.ctx.sortOf(sl.Elem())
				sorts = append(sorts, fmt.Sprintf("(Array Int %s)", es), "Int", "Int")
				hn, hs := x.elemHeap(sl.Elem())
				a := args[i]
				at := e.term(a, Val{Ty: ty.G})
				terms = append(terms, sel(x.heap(e.st, hn, hs), "(s_arr "+at+")"), "(s_off "+at+")", "(s_len "+at+")")
				continue
			}
		}
		sorts = append(sorts, n.sortOfS(ty))
		terms = append(terms, e.term(args[i], Val{Ty: ty.G}))
	}
	rt := n.resolveType(pd.Ret)
	fn := "u_" + pd.Name
	x.ctx.addDecl(fn, fmt.Sprintf("(declare-fun %s (%s) %s)", fn, strings.Join(sorts, " "), n.sortOfS(rt)))
	r := app(fn, terms...)
	if rt.G != nil {
		return x.valFromTerm(r, rt.G)
	}
	return Val{T: r, M: rt.M}
}

func refTerm(v Val) string {
	if v.Ty != nil {
		if _, ok := v.Ty.Underlying().(*types.Slice); ok {
			return "(s_arr " + v.T + ")"
		}
		if _, ok := v.Ty.Underlying().(*types.Interface); ok {
			return "(i_val " + v.T + ")"
		}
	}
	return v.T
}

func (x *Exec) cardFn(keySort string) string {
	fn := "card_" + mangle(keySort)
	if !x.ctx.hasDecl(fn) {
		x.ctx.addDecl(fn, fmt.Sprintf("(declare-fun %s ((Array %s Bool)) Int)", fn, keySort))
		x.ctx.addAxiom(fn, fmt.Sprintf("(assert (forall ((s (Array %[2]s Bool))) (! (and (>= (%[1]s s) 0) (= (= (%[1]s s) 0) (= s ((as const (Array %[2]s Bool)) false)))) :pattern ((%[1]s s)))))", fn, keySort))
		x.ctx.addAxiom(fn, fmt.Sprintf("(assert (forall ((s (Array %[2]s Bool)) (k %[2]s)) (! (=> (select s k) (> (%[1]s s) 0)) :pattern ((%[1]s s) (select s k)))))", fn, keySort))
	}
	return fn
}

// evalClause evaluates a boolean clause, converting spec errors into engine errors.
func (e *SpecEnv) evalBool(ex Expr) string {
	return e.boolTerm(ex)
}


// ---------------------------------------------------------------------------------------------
// recursive spec functions: uninterpreted function + one-level unfolding axiom (fuel 1)

type recInfo struct {
	uf     string
	heaps  []string // heap names the body reads, in order
	hsorts []string
	psorts []string
	ret    *STy
	busy   bool
	pass1  bool
}

func (x *Exec) scratchState() *State {
	st := &State{heaps: map[string]string{}, cells: map[int]Val{}, iters: map[int]string{}, declared: map[string]bool{}, sc: &script{}}
	st.frames = []*Frame{{env: nil}}
	return st
}

func (e *SpecEnv) recCall(pd *PureDef, args []Val) Val {
	x := e.x
	if x.recs == nil {
		x.recs = map[string]*recInfo{}
	}
	ri := x.recs[pd.Name]
	if ri == nil {
		ri = &recInfo{uf: "r_" + pd.Name, busy: true, pass1: true}
		x.recs[pd.Name] = ri
		defPkg := x.L.typesPkg(pd.Pkg)
		if defPkg == nil {
			defPkg = e.pkg
		}
		mk := func(st *State) (*SpecEnv, []string) {
			n := &SpecEnv{x: x, st: st, vars: map[string]Val{}, pkg: defPkg, what: "rec " + pd.Name}
			var names []string
			for i, p := range pd.Params {
				ty := n.resolveType(p.Ty)
				nm := fmt.Sprintf("rp_%s_%d", pd.Name, i)
				names = append(names, nm)
				if ty.G != nil {
					n.vars[p.Name] = x.valFromTerm(nm, ty.G)
				} else {
					n.vars[p.Name] = Val{T: nm, M: ty.M}
				}
			}
			return n, names
		}
		// pass 1: discover the heaps the body reads
		s1 := x.scratchState()
		n1, _ := mk(s1)
		for _, p := range pd.Params {
			ri.psorts = append(ri.psorts, n1.sortOfS(n1.resolveType(p.Ty)))
		}
		ri.ret = n1.resolveType(pd.Ret)
		ri.heaps = nil
		n1.eval(pd.Body)
		for h := range s1.heaps {
			if h != "$alloc" {
				ri.heaps = append(ri.heaps, h)
			}
		}
		sortStrings(ri.heaps)
		for _, h := range ri.heaps {
			ri.hsorts = append(ri.hsorts, x.heapSort[h])
		}
		ri.busy, ri.pass1 = false, false
		// pass 2: the unfolding axiom
		s2 := x.scratchState()
		var binders, hvars []string
		for i, h := range ri.heaps {
			hv := fmt.Sprintf("rh_%s_%d", pd.Name, i)
			hvars = append(hvars, hv)
			s2.heaps[h] = hv
			binders = append(binders, fmt.Sprintf("(%s %s)", hv, ri.hsorts[i]))
		}
		n2, pn := mk(s2)
		for i, nm := range pn {
			binders = append(binders, fmt.Sprintf("(%s %s)", nm, ri.psorts[i]))
		}
		allSorts := append(append([]string{}, ri.hsorts...), ri.psorts...)
		rs := n2.sortOfS(ri.ret)
		x.ctx.addDecl(ri.uf, fmt.Sprintf("(declare-fun %s (%s) %s)", ri.uf, strings.Join(allSorts, " "), rs))
		x.ctx.addDecl(ri.uf+"_0", fmt.Sprintf("(declare-fun %s_0 (%s) %s)", ri.uf, strings.Join(allSorts, " "), rs))
		ri.busy = true // recursive calls inside the body go to the fuel-0 symbol
		body := x.termOf(s2, n2.eval(pd.Body))
		ri.busy = false
		lhs := app(ri.uf, append(append([]string{}, hvars...), pn...)...)
		lhs0 := app(ri.uf+"_0", append(append([]string{}, hvars...), pn...)...)
		if len(binders) > 0 {
			x.ctx.addAxiom(ri.uf, fmt.Sprintf("(assert (forall (%s) (! (and (= %s %s) (= %s %s)) :pattern (%s))))", strings.Join(binders, " "), lhs, body, lhs0, lhs, lhs))
		}
		x.trustedRec(pd)
	}
	var terms []string
	if ri.pass1 {
		// pass 1 of the definition: result is irrelevant, only heap reads matter
		n := &SpecEnv{x: x, pkg: e.pkg, what: e.what}
		rt := n.resolveType(pd.Ret)
		if rt.G != nil {
			return x.zeroVal(rt.G)
		}
		return Val{T: "0", M: rt.M}
	}
	for i, h := range ri.heaps {
		terms = append(terms, x.heap(e.st, h, ri.hsorts[i]))
	}
	for i, a := range args {
		_ = i
		terms = append(terms, e.term(a, Val{}))
	}
	fn := ri.uf
	if ri.busy {
		fn = ri.uf + "_0"
	}
	r := app(fn, terms...)
	if ri.ret.G != nil {
		return x.valFromTerm(r, ri.ret.G)
	}
	return Val{T: r, M: ri.ret.M}
}

func sortStrings(s []string) {
	for i := 1; i < len(s); i++ {
		for j := i; j > 0 && s[j] < s[j-1]; j-- {
			s[j], s[j-1] = s[j-1], s[j]
		}
	}
}

func (x *Exec) trustedRec(pd *PureDef) {}
