package main

// SMT-LIB generation helpers: sorts for Go types, global declarations, script assembly.

import (
	"hash/fnv"
	"fmt"
	"go/types"
	"regexp"
	"sort"
	"strings"
	"sync"
)

type gdecl struct {
	name string
	text string
}

// SMTCtx collects global declarations (datatypes, uninterpreted functions, axioms) that are shared
// by all queries of a run. Only the declarations whose symbols occur in a query (transitively) are
// emitted with it.
type SMTCtx struct {
	mu       sync.Mutex
	decls    []gdecl
	declIdx  map[string]int
	axioms   []gdecl // quantified facts attached to a symbol: emitted if the symbol is used
	structs  []*types.Struct
	structNm []string
	named    map[string]string // struct mangled name cache by type string
	strLits  map[string]string
	strOrder []string
	typeTags map[string]int
	tagOrder []string
	fieldIds map[string]int
	uniq     int
	freshSeq int // fresh-name counter; reset per verified function so that a function's queries do not depend on what was verified before it
	patSort  map[string]string // trigger term -> sort (for ground seeds of skolemized goals)
}

func (c *SMTCtx) notePatSort(term, sort string) {
	c.mu.Lock()
	defer c.mu.Unlock()
	if c.patSort == nil {
		c.patSort = map[string]string{}
	}
	c.patSort[term] = sort
}

func (c *SMTCtx) patSortOf(term string) (string, bool) {
	c.mu.Lock()
	defer c.mu.Unlock()
	s, ok := c.patSort[term]
	return s, ok
}

func newSMTCtx() *SMTCtx {
	c := &SMTCtx{declIdx: map[string]int{}, named: map[string]string{}, strLits: map[string]string{},
		typeTags: map[string]int{}, fieldIds: map[string]int{}}
	c.initPrelude()
	return c
}

const prelude = `(set-option :produce-models true)
(set-logic ALL)
(declare-sort Str 0)
(declare-datatypes ((Slice 0)) (((mk_slice (s_arr Int) (s_off Int) (s_len Int) (s_cap Int)))))
(declare-datatypes ((Iface 0)) (((mk_iface (i_tag Int) (i_val Int)))))
(declare-const str_empty Str)
(define-fun iface_nil () Iface (mk_iface 0 0))
(define-fun slice_nil () Slice (mk_slice 0 0 0 0))
`

func (c *SMTCtx) initPrelude() {
	c.addDecl("strlen", "(declare-fun strlen (Str) Int)")
	c.addAxiom("strlen", "(assert (forall ((s Str)) (! (>= (strlen s) 0) :pattern ((strlen s)))))")
	c.addAxiom("strlen", "(assert (forall ((s Str)) (! (= (= (strlen s) 0) (= s str_empty)) :pattern ((strlen s)))))")
	c.addDecl("str_cat", "(declare-fun str_cat (Str Str) Str)")
	c.addAxiom("str_cat", "(assert (forall ((a Str) (b Str)) (! (= (strlen (str_cat a b)) (+ (strlen a) (strlen b))) :pattern ((str_cat a b)))))")
	c.addDecl("str_at", "(declare-fun str_at (Str Int) Int)")
	c.addAxiom("str_at", "(assert (forall ((a Str) (i Int)) (! (and (<= 0 (str_at a i)) (< (str_at a i) 256)) :pattern ((str_at a i)))))")
	c.addDecl("str_sub", "(declare-fun str_sub (Str Int Int) Str)")
	c.addAxiom("str_sub", "(assert (forall ((a Str) (i Int) (j Int)) (! (=> (and (<= 0 i) (<= i j) (<= j (strlen a))) (= (strlen (str_sub a i j)) (- j i))) :pattern ((str_sub a i j)))))")
	c.addDecl("str_lt", "(declare-fun str_lt (Str Str) Bool)")
	c.addDecl("fieldptr", "(declare-fun fieldptr (Int Int) Int)")
	c.addDecl("fp_base", "(declare-fun fp_base (Int) Int)")
	c.addDecl("fp_field", "(declare-fun fp_field (Int) Int)")
	c.addAxiom("fieldptr", "(assert (forall ((r Int) (k Int)) (! (and (= (fp_base (fieldptr r k)) r) (= (fp_field (fieldptr r k)) k) (< (fieldptr r k) 0)) :pattern ((fieldptr r k)))))")
	for _, f := range []string{"bv_and", "bv_or", "bv_xor", "bv_shl", "bv_shr"} {
		c.addDecl(f, "(declare-fun "+f+" (Int Int) Int)")
	}
}

func (c *SMTCtx) fresh(prefix string) string {
	c.mu.Lock()
	defer c.mu.Unlock()
	c.freshSeq++
	return fmt.Sprintf("%s!%d", prefix, c.freshSeq)
}

func (c *SMTCtx) addDecl(name, text string) {
	c.mu.Lock()
	defer c.mu.Unlock()
	if _, ok := c.declIdx[name]; ok {
		return
	}
	c.declIdx[name] = len(c.decls)
	c.decls = append(c.decls, gdecl{name, text})
}

func (c *SMTCtx) hasDecl(name string) bool {
	c.mu.Lock()
	defer c.mu.Unlock()
	_, ok := c.declIdx[name]
	return ok
}

// addAxiom attaches a (quantified) assertion to a symbol.
func (c *SMTCtx) addAxiom(sym, text string) {
	c.mu.Lock()
	defer c.mu.Unlock()
	c.axioms = append(c.axioms, gdecl{sym, text})
}

var mangleRe = regexp.MustCompile(`[^A-Za-z0-9_]`)

func mangle(s string) string {
	s = strings.ReplaceAll(s, "tkestack.io/galaxy/", "")
	s = strings.ReplaceAll(s, "k8s.io/", "k8s_")
	s = strings.ReplaceAll(s, "*", "P")
	s = strings.ReplaceAll(s, "[]", "L")
	return mangleRe.ReplaceAllString(s, "_")
}

func typeKey(t types.Type) string {
	return types.TypeString(t, func(p *types.Package) string { return p.Path() })
}

// structName returns the SMT datatype name for a struct type, declaring it on demand.
func (c *SMTCtx) structName(t types.Type) string {
	key := typeKey(t.Underlying())
	c.mu.Lock()
	if n, ok := c.named[key]; ok {
		c.mu.Unlock()
		return n
	}
	var name string
	if nt, ok := t.(*types.Named); ok {
		name = "S_" + mangle(typeKey(nt))
	} else {
		c.uniq++
		name = fmt.Sprintf("S_anon%d", c.uniq)
	}
	// guard against collisions
	for _, used := range c.named {
		if used == name {
			c.uniq++
			name = fmt.Sprintf("%s_%d", name, c.uniq)
		}
	}
	c.named[key] = name
	c.mu.Unlock()
	st := t.Underlying().(*types.Struct)
	var fields []string
	for i := 0; i < st.NumFields(); i++ {
		fields = append(fields, fmt.Sprintf("(%s %s)", c.fieldAcc(name, st, i), c.sortOf(st.Field(i).Type())))
	}
	ctor := "mk_" + name
	var text string
	if len(fields) == 0 {
		text = fmt.Sprintf("(declare-datatypes ((%s 0)) (((%s))))", name, ctor)
	} else {
		text = fmt.Sprintf("(declare-datatypes ((%s 0)) (((%s %s))))", name, ctor, strings.Join(fields, " "))
	}
	c.addDecl(name, text)
	return name
}

func (c *SMTCtx) fieldAcc(sname string, st *types.Struct, i int) string {
	return fmt.Sprintf("%s.%s", sname, st.Field(i).Name())
}

// sortOf maps a Go type to an SMT sort.
func (c *SMTCtx) sortOf(t types.Type) string {
	switch u := t.Underlying().(type) {
	case *types.Basic:
		switch {
		case u.Info()&types.IsBoolean != 0:
			return "Bool"
		case u.Info()&types.IsInteger != 0:
			return "Int"
		case u.Info()&types.IsString != 0:
			return "Str"
		case u.Info()&types.IsFloat != 0:
			return "Real"
		case u.Kind() == types.UnsafePointer:
			return "Int"
		case u.Kind() == types.UntypedNil:
			return "Int"
		}
		return "Int"
	case *types.Pointer, *types.Map, *types.Chan, *types.Signature:
		return "Int"
	case *types.Slice:
		return "Slice"
	case *types.Interface:
		return "Iface"
	case *types.Struct:
		return c.structName(t)
	case *types.Array:
		return fmt.Sprintf("(Array Int %s)", c.sortOf(u.Elem()))
	case *types.Tuple:
		return "Int"
	}
	return "Int"
}

// zeroOf returns the zero value term for a Go type.
func (c *SMTCtx) zeroOf(t types.Type) string {
	switch u := t.Underlying().(type) {
	case *types.Basic:
		switch {
		case u.Info()&types.IsBoolean != 0:
			return "false"
		case u.Info()&types.IsString != 0:
			return "str_empty"
		case u.Info()&types.IsFloat != 0:
			return "0.0"
		}
		return "0"
	case *types.Slice:
		return "(mk_slice 0 0 0 0)"
	case *types.Interface:
		return "(mk_iface 0 0)"
	case *types.Struct:
		n := c.structName(t)
		if u.NumFields() == 0 {
			return "mk_" + n
		}
		var fs []string
		for i := 0; i < u.NumFields(); i++ {
			fs = append(fs, c.zeroOf(u.Field(i).Type()))
		}
		return fmt.Sprintf("(mk_%s %s)", n, strings.Join(fs, " "))
	case *types.Array:
		return fmt.Sprintf("((as const (Array Int %s)) %s)", c.sortOf(u.Elem()), c.zeroOf(u.Elem()))
	}
	return "0"
}

// strLit returns the constant for a string literal.
func (c *SMTCtx) strLit(s string) string {
	if s == "" {
		return "str_empty"
	}
	c.mu.Lock()
	defer c.mu.Unlock()
	if n, ok := c.strLits[s]; ok {
		return n
	}
	// the name depends on the content only (not on the order of discovery): the text of a query is
	// then the same whichever functions were verified before
	n := fmt.Sprintf("strlit_%x", stableHash(s)&0xffffffffff)
	for used := true; used; {
		used = false
		for _, o := range c.strLits {
			if o == n {
				used = true
				n += "x"
			}
		}
	}
	c.strLits[s] = n
	c.strOrder = append(c.strOrder, s)
	return n
}

func stableHash(s string) uint64 {
	h := fnv.New64a()
	h.Write([]byte(s))
	return h.Sum64()
}

// typeTag returns the dynamic type tag (>0) for a concrete type stored in an interface.
func (c *SMTCtx) typeTag(t types.Type) int {
	k := typeKey(t)
	c.mu.Lock()
	defer c.mu.Unlock()
	if n, ok := c.typeTags[k]; ok {
		return n
	}
	n := 1 + int(stableHash(k)%9000000)
	for used := true; used; {
		used = false
		for _, o := range c.typeTags {
			if o == n {
				used = true
				n++
			}
		}
	}
	c.typeTags[k] = n
	c.tagOrder = append(c.tagOrder, k)
	return n
}

func (c *SMTCtx) fieldID(structName, field string) int {
	k := structName + "." + field
	c.mu.Lock()
	defer c.mu.Unlock()
	if n, ok := c.fieldIds[k]; ok {
		return n
	}
	n := 1 + int(stableHash(k)%9000000)
	for used := true; used; {
		used = false
		for _, o := range c.fieldIds {
			if o == n {
				used = true
				n++
			}
		}
	}
	c.fieldIds[k] = n
	return n
}

// box/unbox functions for non-pointer values stored in interfaces
func (c *SMTCtx) boxFns(t types.Type) (string, string) {
	srt := c.sortOf(t)
	k := mangle(typeKey(t))
	box, unbox := "box_"+k, "unbox_"+k
	if !c.hasDecl(box) {
		c.addDecl(box, fmt.Sprintf("(declare-fun %s (%s) Int)", box, srt))
		c.addDecl(unbox, fmt.Sprintf("(declare-fun %s (Int) %s)", unbox, srt))
		c.addAxiom(box, fmt.Sprintf("(assert (forall ((x %s)) (! (= (%s (%s x)) x) :pattern ((%s x)))))", srt, unbox, box, box))
	}
	return box, unbox
}

var symRe = regexp.MustCompile(`[A-Za-z_$][A-Za-z0-9_.$!@#]*`)

// assemble builds a complete query: prelude, needed global declarations, literal facts, body.
func (c *SMTCtx) assemble(body string) string {
	c.mu.Lock()
	defer c.mu.Unlock()
	need := map[string]bool{}
	var work []string
	scan := func(text string) {
		for _, s := range symRe.FindAllString(text, -1) {
			if !need[s] {
				need[s] = true
				work = append(work, s)
			}
		}
	}
	scan(body)
	for _, s := range c.strOrder {
		if need[c.strLits[s]] {
			scan("strlen")
			break
		}
	}
	axUsed := make([]bool, len(c.axioms))
	for len(work) > 0 {
		s := work[len(work)-1]
		work = work[:len(work)-1]
		if i, ok := c.declIdx[s]; ok {
			scan(c.decls[i].text)
		}
		// datatype accessor / constructor symbols: S_x.f and mk_S_x
		if strings.HasPrefix(s, "mk_S_") {
			if !need[s[3:]] {
				need[s[3:]] = true
				work = append(work, s[3:])
			}
		}
		if j := strings.Index(s, "."); j > 0 && strings.HasPrefix(s, "S_") {
			if !need[s[:j]] {
				need[s[:j]] = true
				work = append(work, s[:j])
			}
		}
		for i, a := range c.axioms {
			if !axUsed[i] && a.name == s {
				axUsed[i] = true
				scan(a.text)
			}
		}
	}
	var sb strings.Builder
	sb.WriteString(prelude)
	// datatypes and functions in declaration order; struct datatypes must be ordered by dependency:
	// a struct declared later may be referenced by an earlier one only through Int (pointers), and
	// by-value nesting is declared first because structName recurses before addDecl.
	// canonical order: repeatedly the alphabetically first needed declaration all of whose needed
	// dependencies are already out (discovery order would make the text depend on what was verified
	// before, and the solvers are sensitive to declaration order)
	var pend []gdecl
	for _, d := range c.decls {
		if need[d.name] {
			pend = append(pend, d)
		}
	}
	sort.Slice(pend, func(i, j int) bool { return pend[i].name < pend[j].name })
	deps := make([][]string, len(pend))
	isPend := map[string]bool{}
	for _, d := range pend {
		isPend[d.name] = true
	}
	for i, d := range pend {
		seen := map[string]bool{}
		for _, s := range symRe.FindAllString(d.text, -1) {
			t := s
			if strings.HasPrefix(t, "mk_S_") {
				t = t[3:]
			} else if j := strings.Index(t, "."); j > 0 && strings.HasPrefix(t, "S_") {
				t = t[:j]
			}
			if t != d.name && isPend[t] && !seen[t] {
				seen[t] = true
				deps[i] = append(deps[i], t)
			}
		}
	}
	out := map[string]bool{}
	for emitted := 0; emitted < len(pend); {
		progress := false
		for i, d := range pend {
			if out[d.name] {
				continue
			}
			ok := true
			for _, dep := range deps[i] {
				if !out[dep] {
					ok = false
					break
				}
			}
			if ok {
				sb.WriteString(d.text)
				sb.WriteString("\n")
				out[d.name] = true
				emitted++
				progress = true
				break
			}
		}
		if !progress {
			// cyclic mention (should not happen): fall back to discovery order for the rest
			for _, d := range c.decls {
				if need[d.name] && !out[d.name] {
					sb.WriteString(d.text)
					sb.WriteString("\n")
					out[d.name] = true
					emitted++
				}
			}
		}
	}
	// string literals
	var lits []string
	litLen := map[string]int{}
	for _, s := range c.strOrder {
		n := c.strLits[s]
		if need[n] {
			lits = append(lits, n)
			litLen[n] = len(s)
		}
	}
	sort.Strings(lits)
	for _, n := range lits {
		fmt.Fprintf(&sb, "(declare-const %s Str)\n(assert (= (strlen %s) %d))\n", n, n, litLen[n])
	}
	if len(lits) > 1 {
		fmt.Fprintf(&sb, "(assert (distinct %s))\n", strings.Join(lits, " "))
	}
	var axs []string
	for i, a := range c.axioms {
		if axUsed[i] {
			axs = append(axs, a.text)
		}
	}
	sort.Strings(axs)
	for _, a := range axs {
		sb.WriteString(a)
		sb.WriteString("\n")
	}
	sb.WriteString("; --- path ---\n")
	sb.WriteString(body)
	return sb.String()
}

// small term helpers

func and(ts ...string) string {
	var out []string
	for _, t := range ts {
		if t == "true" {
			continue
		}
		if t == "false" {
			return "false"
		}
		out = append(out, t)
	}
	switch len(out) {
	case 0:
		return "true"
	case 1:
		return out[0]
	}
	return "(and " + strings.Join(out, " ") + ")"
}

func or(ts ...string) string {
	var out []string
	for _, t := range ts {
		if t == "false" {
			continue
		}
		if t == "true" {
			return "true"
		}
		out = append(out, t)
	}
	switch len(out) {
	case 0:
		return "false"
	case 1:
		return out[0]
	}
	return "(or " + strings.Join(out, " ") + ")"
}

func not(t string) string {
	switch t {
	case "true":
		return "false"
	case "false":
		return "true"
	}
	if strings.HasPrefix(t, "(not ") && strings.HasSuffix(t, ")") && balanced(t[5:len(t)-1]) {
		return t[5 : len(t)-1]
	}
	return "(not " + t + ")"
}

func balanced(s string) bool {
	d := 0
	for i := 0; i < len(s); i++ {
		switch s[i] {
		case '(':
			d++
		case ')':
			d--
			if d < 0 {
				return false
			}
		case ' ':
			if d == 0 {
				return false
			}
		}
	}
	return d == 0
}

func implies(a, b string) string {
	if a == "true" {
		return b
	}
	if a == "false" || b == "true" {
		return "true"
	}
	return "(=> " + a + " " + b + ")"
}

func eq(a, b string) string {
	if a == b {
		return "true"
	}
	return "(= " + a + " " + b + ")"
}

func ite(c, a, b string) string {
	if c == "true" {
		return a
	}
	if c == "false" {
		return b
	}
	if a == b {
		return a
	}
	return "(ite " + c + " " + a + " " + b + ")"
}

func sel(a, i string) string      { return "(select " + a + " " + i + ")" }
func sto(a, i, v string) string   { return "(store " + a + " " + i + " " + v + ")" }
func app(f string, a ...string) string {
	if len(a) == 0 {
		return f
	}
	return "(" + f + " " + strings.Join(a, " ") + ")"
}

func pow2(n int) string {
	// exact decimal string of 2^n for n <= 64
	v := uint64(1)
	if n < 64 {
		return fmt.Sprint(v << uint(n))
	}
	return "18446744073709551616"
}

func intLit(s string) string {
	if strings.HasPrefix(s, "-") {
		return "(- " + s[1:] + ")"
	}
	return s
}
