package main

// Loading /repo (go/packages, go/ssa) and the contract files.

import (
	"fmt"
	"go/ast"
	"go/token"
	"go/types"
	"os"
	"path/filepath"
	"sort"
	"strings"

	"golang.org/x/tools/go/packages"
	"golang.org/x/tools/go/ssa"
	"golang.org/x/tools/go/ssa/ssautil"
)

type astIdent = ast.Ident

var buildBodies = map[string]bool{"encoding/binary": true, "k8s.io/apimachinery/pkg/util/sets": true, "k8s.io/apimachinery/pkg/apis/meta/v1": true}

type Loaded struct {
	fset             *token.FileSet
	pkgs             []*packages.Package
	prog             *ssa.Program
	byPath           map[string]*packages.Package
	fnInfos          map[*ssa.Function]*fnInfo
	inlinableCache   map[*ssa.Function]bool
	immutableGlobals map[string]bool
	nonNilGlobals    map[string]bool
	repo             string
	loadS            float64
}

func loadRepo(repo string, patterns []string) (*Loaded, error) {
	cfg := &packages.Config{
		Mode:       packages.LoadAllSyntax,
		Dir:        repo,
		BuildFlags: []string{"-tags=verif"},
		Env:        append(os.Environ(), "GOFLAGS=-mod=mod", "GOPROXY=off", "GOSUMDB=off", "GOTOOLCHAIN=local"),
	}
	pkgs, err := packages.Load(cfg, patterns...)
	if err != nil {
		return nil, err
	}
	var errs []string
	packages.Visit(pkgs, nil, func(p *packages.Package) {
		if strings.HasPrefix(p.PkgPath, galaxyPrefix) {
			for _, e := range p.Errors {
				errs = append(errs, e.Error())
			}
		}
	})
	if len(errs) > 0 {
		return nil, fmt.Errorf("load errors: %s", strings.Join(errs, "; "))
	}
	prog, _ := ssautil.AllPackages(pkgs, ssa.GlobalDebug|ssa.InstantiateGenerics)
	// build function bodies only where they are needed: galaxy itself and the few library
	// packages whose real bodies are inlined (see contracts/external: `inline`).
	for _, p := range prog.AllPackages() {
		pp := p.Pkg.Path()
		if strings.HasPrefix(pp, galaxyPrefix) || buildBodies[pp] {
			p.Build()
		}
	}
	L := &Loaded{fset: prog.Fset, pkgs: pkgs, prog: prog, byPath: map[string]*packages.Package{}, fnInfos: map[*ssa.Function]*fnInfo{},
		inlinableCache: map[*ssa.Function]bool{}, immutableGlobals: map[string]bool{}, nonNilGlobals: map[string]bool{}, repo: repo}
	packages.Visit(pkgs, nil, func(p *packages.Package) { L.byPath[p.PkgPath] = p })
	L.computeImmutableGlobals()
	return L, nil
}

func (L *Loaded) typesPkg(path string) *types.Package {
	if p, ok := L.byPath[path]; ok {
		return p.Types
	}
	return nil
}

// findPkgByName finds an imported package by its local name (as seen from pkg), falling back to
// any loaded package with that name.
func (L *Loaded) findPkgByName(from *types.Package, name string) *types.Package {
	if from != nil {
		for _, imp := range from.Imports() {
			if imp.Name() == name {
				return imp
			}
		}
	}
	var cands []string
	for path, p := range L.byPath {
		if p.Types != nil && p.Types.Name() == name {
			cands = append(cands, path)
		}
	}
	sort.Strings(cands)
	// prefer galaxy packages, then shortest path
	for _, c := range cands {
		if strings.HasPrefix(c, galaxyPrefix) {
			return L.byPath[c].Types
		}
	}
	if len(cands) > 0 {
		sort.Slice(cands, func(i, j int) bool { return len(cands[i]) < len(cands[j]) })
		return L.byPath[cands[0]].Types
	}
	return nil
}

// findTypeQualified resolves pkgName.typeName as seen from a package; several imports may share
// a package name (v1alpha1), so every candidate is tried.
func (L *Loaded) findTypeQualified(from *types.Package, pkgName, typeName string) types.Type {
	try := func(p *types.Package) types.Type {
		if p == nil || p.Name() != pkgName {
			return nil
		}
		if o := p.Scope().Lookup(typeName); o != nil {
			if tn, ok := o.(*types.TypeName); ok {
				return tn.Type()
			}
		}
		return nil
	}
	if from != nil {
		for _, imp := range from.Imports() {
			if t := try(imp); t != nil {
				return t
			}
		}
	}
	var paths []string
	for path := range L.byPath {
		paths = append(paths, path)
	}
	sort.Strings(paths)
	for _, pref := range []bool{true, false} {
		for _, path := range paths {
			if strings.HasPrefix(path, galaxyPrefix) != pref {
				continue
			}
			if t := try(L.byPath[path].Types); t != nil {
				return t
			}
		}
	}
	return nil
}

// computeImmutableGlobals: package-level variables of galaxy packages that are never stored to
// outside package initialisation.
func (L *Loaded) computeImmutableGlobals() {
	stored := map[string]bool{}
	all := map[string]bool{}
	for _, p := range L.prog.AllPackages() {
		if !strings.HasPrefix(p.Pkg.Path(), galaxyPrefix) {
			continue
		}
		for _, m := range p.Members {
			if g, ok := m.(*ssa.Global); ok {
				all[p.Pkg.Path()+"."+g.Name()] = true
			}
		}
	}
	for fn := range ssautil.AllFunctions(L.prog) {
		if fn.Pkg == nil || !strings.HasPrefix(fn.Pkg.Pkg.Path(), galaxyPrefix) {
			if fn.Parent() == nil || !isGalaxy(fn) {
				continue
			}
		}
		if fn.Name() == "init" {
			// error values built by fmt.Errorf / errors.New in package initialisation are non-nil
			for _, b := range fn.Blocks {
				for _, ins := range b.Instrs {
					if s, ok := ins.(*ssa.Store); ok {
						if g, ok := s.Addr.(*ssa.Global); ok {
							if c, ok := s.Val.(*ssa.Call); ok {
								if f := c.Call.StaticCallee(); f != nil && (f.String() == "fmt.Errorf" || f.String() == "errors.New" || strings.HasPrefix(f.String(), "flag.") || strings.HasPrefix(f.String(), "github.com/spf13/pflag.")) {
									L.nonNilGlobals[g.Pkg.Pkg.Path()+"."+g.Name()] = true
								}
							}
						}
					}
				}
			}
			continue
		}
		for _, b := range fn.Blocks {
			for _, ins := range b.Instrs {
				if s, ok := ins.(*ssa.Store); ok {
					if g, ok := s.Addr.(*ssa.Global); ok {
						stored[g.Pkg.Pkg.Path()+"."+g.Name()] = true
					}
				}
				// address taken and passed around: be conservative
				for _, op := range ins.Operands(nil) {
					if g, ok := (*op).(*ssa.Global); ok {
						switch t := ins.(type) {
						case *ssa.UnOp:
							_ = t
						case *ssa.Store:
							if t.Addr != g {
								stored[g.Pkg.Pkg.Path()+"."+g.Name()] = true
							}
						default:
							stored[g.Pkg.Pkg.Path()+"."+g.Name()] = true
						}
					}
				}
			}
		}
	}
	for g := range all {
		if !stored[g] {
			L.immutableGlobals[g] = true
		}
	}
}

// loadContracts reads zz_contracts_verif.go files of galaxy packages and the external catalogue.
func (L *Loaded) loadContracts(extDir string) (*SpecDB, error) {
	db := newSpecDB()
	var paths []string
	for path := range L.byPath {
		if strings.HasPrefix(path, galaxyPrefix) {
			paths = append(paths, path)
		}
	}
	sort.Strings(paths)
	for _, path := range paths {
		p := L.byPath[path]
		dir := ""
		for _, f := range p.GoFiles {
			dir = filepath.Dir(f)
			break
		}
		if dir == "" {
			continue
		}
		matches, _ := filepath.Glob(filepath.Join(dir, "zz_contracts*_verif.go"))
		sort.Strings(matches)
		for _, m := range matches {
			data, err := os.ReadFile(m)
			if err != nil {
				return nil, err
			}
			if err := checkCommentOnly(m, string(data)); err != nil {
				return nil, err
			}
			if err := db.parseContractText(m, path, string(data)); err != nil {
				return nil, err
			}
		}
	}
	if err := db.checkIfaceConformance(galaxyPrefix+"/pkg/ipam/floatingip", "IPAM", "*crdIpam"); err != nil {
		return nil, err
	}
	ext, _ := filepath.Glob(filepath.Join(extDir, "*.spec"))
	sort.Strings(ext)
	for _, m := range ext {
		data, err := os.ReadFile(m)
		if err != nil {
			return nil, err
		}
		if err := db.parseContractText(m, "", string(data)); err != nil {
			return nil, err
		}
	}
	return db, nil
}

// checkIfaceConformance: a contract on an interface method `(I).M` that names an implementation
// (`//@ implements (I).M` is implied by the naming convention below) is only an assumption at call
// sites; to keep it honest every ensures clause of `(IPAM).M` must be, verbatim, an ensures clause
// of `(*crdIpam).M` (which is proved), and every requires clause of `(*crdIpam).M` must be a
// requires clause of `(IPAM).M` (so callers establish what the proof assumed).
func (db *SpecDB) checkIfaceConformance(pkg, iface, impl string) error {
	norm := func(s string) string { return strings.Join(strings.Fields(s), " ") }
	for k, ic := range db.Contracts {
		if ic.Pkg != pkg || !strings.HasPrefix(ic.Key, "("+iface+").") {
			continue
		}
		m := strings.TrimPrefix(ic.Key, "("+iface+").")
		cc, ok := db.Contracts[pkg+"::("+impl+")."+m]
		if !ok {
			return fmt.Errorf("%s: no contract on (%s).%s to conform to", k, impl, m)
		}
		have := map[string]bool{}
		for _, e := range cc.Ensures {
			have[norm(e.Src)] = true
		}
		for _, e := range ic.Ensures {
			if !have[norm(e.Src)] {
				return fmt.Errorf("%s: ensures clause is not a proved postcondition of (%s).%s: %s", k, impl, m, e.Src)
			}
		}
		need := map[string]bool{}
		for _, r := range ic.Requires {
			need[norm(r.Src)] = true
		}
		for _, r := range cc.Requires {
			if !need[norm(r.Src)] {
				return fmt.Errorf("%s: precondition of (%s).%s is missing: %s", k, impl, m, r.Src)
			}
		}
		// frame: what the interface contract lets callers assume unchanged must have been proved
		// unchanged for the implementation: every item of the implementation's (proved) modifies
		// clause is an item of the interface's modifies clause, or the interface says `all`
		if ic.ModStated {
			ifaceAll := false
			mods := map[string]bool{}
			for _, it := range ic.Modifies {
				it = norm(it)
				if it == "all" {
					ifaceAll = true
				}
				mods[it] = true
				mods["fresh "+strings.TrimPrefix(it, "fresh ")] = true // a non-fresh item covers its fresh form
			}
			if !ifaceAll {
				if !cc.ModStated {
					return fmt.Errorf("%s: modifies clause stated but (%s).%s has none to conform to", k, impl, m)
				}
				for _, it := range cc.Modifies {
					it = norm(it)
					if it == "nothing" {
						continue
					}
					if it == "all" || !mods[it] {
						return fmt.Errorf("%s: modifies clause does not cover %q of (%s).%s", k, it, impl, m)
					}
				}
			}
		}
	}
	return nil
}

// checkCommentOnly enforces that a contract file contains only a build constraint, a package
// clause and comments.
func checkCommentOnly(file, text string) error {
	sawTag := false
	for i, l := range strings.Split(text, "\n") {
		t := strings.TrimSpace(l)
		switch {
		case t == "":
		case strings.HasPrefix(t, "//go:build"):
			if !strings.Contains(t, "verif") {
				return fmt.Errorf("%s:%d: contract file must be guarded by the verif build tag", file, i+1)
			}
			sawTag = true
		case strings.HasPrefix(t, "//"):
		case strings.HasPrefix(t, "package "):
		default:
			return fmt.Errorf("%s:%d: contract files are comment-only; found code: %s", file, i+1, t)
		}
	}
	if !sawTag {
		return fmt.Errorf("%s: missing //go:build verif", file)
	}
	return nil
}

// findFunction resolves a contract key inside a package to its SSA function.
func (L *Loaded) findFunction(pkgPath, key string) *ssa.Function {
	p := L.byPath[pkgPath]
	if p == nil {
		return nil
	}
	sp := L.prog.Package(p.Types)
	if sp == nil {
		return nil
	}
	for fn := range ssautil.AllFunctions(L.prog) {
		if fn.Pkg == sp && fn.RelString(sp.Pkg) == key {
			return fn
		}
	}
	return nil
}

// functionsInFile lists the source-level functions and methods declared in a file of a package.
func (L *Loaded) functionsInFile(pkgPath, base string) []*ssa.Function {
	p := L.byPath[pkgPath]
	if p == nil {
		return nil
	}
	sp := L.prog.Package(p.Types)
	var out []*ssa.Function
	for fn := range ssautil.AllFunctions(L.prog) {
		if fn.Pkg != sp || fn.Synthetic != "" || fn.Parent() != nil {
			continue
		}
		pos := L.fset.Position(fn.Pos())
		if filepath.Base(pos.Filename) == base {
			out = append(out, fn)
		}
	}
	sort.Slice(out, func(i, j int) bool { return out[i].Pos() < out[j].Pos() })
	return out
}
