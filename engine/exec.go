package main

// Forward symbolic execution over go/ssa, modular (callees by contract), loops cut by invariants.

import (
	"fmt"
	"go/constant"
	"go/token"
	"go/types"
	"sort"
	"strings"

	"golang.org/x/tools/go/ssa"
)

type Obligation struct {
	File       string // query file written by the solver stage
	AnyTimeout bool   // some solver of the race ran into the time limit (more time may decide it)
	Retried    bool
	Name       string            `json:"name"`
	Fn         string            `json:"fn"`
	Kind       string            `json:"kind"`
	Tags       []string          `json:"tags,omitempty"`
	Desc       string            `json:"desc,omitempty"`
	Path       []string          `json:"path,omitempty"`
	Query      string            `json:"-"`
	CETerms    []ceTerm          `json:"-"`
	Result     string            `json:"result"` // unsat (discharged) | sat | unknown | timeout | error
	Solver     string            `json:"solver,omitempty"`
	TimeS      float64           `json:"time_s"`
	Model      string            `json:"model,omitempty"`
	Size       int               `json:"smt_bytes"`
	Trivial    bool              `json:"trivial,omitempty"`
	Candidate  bool              `json:"candidate_model,omitempty"`
	CEValues   map[string]string `json:"ce_values,omitempty"`
}

type ceTerm struct {
	Label string
	Term  string
}

type Gap struct {
	Fn   string `json:"fn"`
	What string `json:"what"`
}

type Exec struct {
	L           *Loaded
	db          *SpecDB
	ctx         *SMTCtx
	obls        []*Obligation
	gaps        []Gap
	trusted     map[string]int // assumed contracts actually used
	unverif     map[string]int // callees without contract that were havoced
	inlined     map[string]int
	heapSort    map[string]string
	heapElem    map[string]types.Type // element type of typed heaps (for typing invariants)
	heapKey     map[string]string     // key sort of map-value heaps
	cellSeq     int
	frameSeq    int
	iterSeq     int
	maxDepth    int
	maxSteps    int
	maxPaths    int
	paths       int
	curFn       *ssa.Function
	curCon      *Contract
	curKey      string
	curPkg      *ssa.Package
	ordinals    map[string]int // per function: kind -> counter per instruction
	instrOrd    map[ssa.Instruction]string
	callCover   map[string]bool // function|callee pairs that already have a call-site vacuity query
	pathCap     bool
	ghostTy     map[string]*STy
	abstracted  bool
	mode        string // "full" | "sweep"
	onlyTags    map[string]bool
	entryVars   map[string]Val
	resultNames []string
	unsupported []string
	recs        map[string]*recInfo
}

type unsupportedErr struct{ msg string }

func (x *Exec) unsup(format string, a ...interface{}) {
	panic(unsupportedErr{fmt.Sprintf(format, a...)})
}

func newExec(L *Loaded, db *SpecDB) *Exec {
	x := &Exec{L: L, db: db, ctx: newSMTCtx(), trusted: map[string]int{}, unverif: map[string]int{},
		inlined: map[string]int{}, heapSort: map[string]string{}, heapElem: map[string]types.Type{}, heapKey: map[string]string{}, maxDepth: 4, maxSteps: 20000, maxPaths: 4000,
		ghostTy: map[string]*STy{}}
	x.heapSort["$alloc"] = "Int"
	return x
}

// ---------------------------------------------------------------------------------------------
// heaps

func (x *Exec) pinned(name string) bool {
	if strings.HasPrefix(name, "G$") {
		return true
	}
	if strings.HasPrefix(name, "GV$") && x.L.immutableGlobals[strings.TrimPrefix(name, "GV$")] {
		return true
	}
	return false
}

// heap returns the current version of a heap component. The first touch on a path yields the
// canonical version of the current epoch: name@e<k> is "the value since the k-th havoc-all"
// (k = 0: the entry state), so untouched heaps never need to be enumerated.
func (x *Exec) heap(st *State, name, srt string) string {
	if v, ok := st.heaps[name]; ok {
		return v
	}
	if _, ok := x.heapSort[name]; !ok {
		x.heapSort[name] = srt
	}
	ep := st.epoch
	if x.pinned(name) {
		ep = 0
	}
	v := fmt.Sprintf("%s@e%d", name, ep)
	if !st.declared[v] {
		st.emit(fmt.Sprintf("(declare-const %s %s)", v, srt))
		st.declared[v] = true
		if name == "$alloc" && ep == 0 {
			st.emit("(assert (> $alloc@e0 0))")
		}
		x.typingAxiom(st, name, v)
		if strings.HasPrefix(name, "GV$") && ep == 0 && x.L.immutableGlobals[strings.TrimPrefix(name, "GV$")] && x.L.nonNilGlobals[strings.TrimPrefix(name, "GV$")] && srt == "Iface" {
			st.emit(fmt.Sprintf("(assert (not (= %s (mk_iface 0 0))))", v))
		}
		if strings.HasPrefix(name, "GV$") && ep == 0 && x.L.immutableGlobals[strings.TrimPrefix(name, "GV$")] && x.L.nonNilGlobals[strings.TrimPrefix(name, "GV$")] && srt == "Int" {
			st.emit(fmt.Sprintf("(assert (not (= %s 0)))", v))
		}
	}
	st.heaps[name] = v
	return v
}

func (x *Exec) setHeap(st *State, name, srt, term string) {
	x.heap(st, name, srt) // make sure the entry version exists
	old := st.heaps[name]
	v := x.ctx.fresh(name + "@")
	st.emit(fmt.Sprintf("(declare-const %s %s)", v, srt))
	st.emit(fmt.Sprintf("(assert (= %s %s))", v, term))
	st.heaps[name] = v
	x.atFrameLemma(st, name, old, v)
}

// atFrameLemma: element reads through at_T carry over from the previous version of an element
// heap wherever the backing array is unchanged (consequence of the at_T axiom; it lets
// E-matching move at_T terms across heap versions).
func (x *Exec) atFrameLemma(st *State, name, old, v string) {
	if !strings.HasPrefix(name, "E$") || old == "" || old == v {
		return
	}
	et, ok := x.heapElem[name]
	if !ok {
		return
	}
	at := x.atFn(et)
	st.emit(fmt.Sprintf("(assert (forall ((s Slice) (i Int)) (! (=> (= (select %s (s_arr s)) (select %s (s_arr s))) (= (%s %s s i) (%s %s s i))) :pattern ((%s %s s i)))))", v, old, at, v, at, old, at, v))
}

func (x *Exec) havocHeap(st *State, name, srt string) string {
	old := x.heap(st, name, srt)
	v := x.ctx.fresh(name + "@")
	st.emit(fmt.Sprintf("(declare-const %s %s)", v, srt))
	st.heaps[name] = v
	x.typingAxiom(st, name, v)
	x.atFrameLemma(st, name, old, v)
	return v
}

// typingAxiom: every cell of a typed heap holds a well-formed value of its Go type (integers in
// range, references allocated). Asserted for canonical and havoced versions; versions defined by
// a store inherit it.
func (x *Exec) typingAxiom(st *State, name, v string) {
	et, ok := x.heapElem[name]
	if !ok || name == "$alloc" {
		return
	}
	if strings.HasPrefix(name, "GV$") {
		if wf := x.wfTerm(st, v, et, 2); wf != "true" {
			if x.pinned(name) {
				// an immutable global holds the value it had on entry: allocated before entry
				wf = strings.ReplaceAll(wf, " "+x.heap(st, "$alloc", "Int")+")", " $alloc@e0)")
			}
			st.emit("(assert " + wf + ")")
		}
		return
	}
	var cell, binders string
	switch {
	case strings.HasPrefix(name, "E$"):
		cell = fmt.Sprintf("(select (select %s r) i)", v)
		binders = "(r Int) (i Int)"
	case strings.HasPrefix(name, "F$"), strings.HasPrefix(name, "P$"):
		cell = fmt.Sprintf("(select %s r)", v)
		binders = "(r Int)"
	case strings.HasPrefix(name, "MV$"):
		cell = fmt.Sprintf("(select (select %s r) k)", v)
		binders = fmt.Sprintf("(r Int) (k %s)", x.heapKey[name])
	default:
		return
	}
	wf := x.wfTerm(st, cell, et, 2)
	if wf == "true" {
		return
	}
	if i := strings.LastIndex(v, "@e"); i >= 0 && allDigits(v[i+2:]) {
		// the canonical version of an epoch is the heap as it was when the epoch began: the
		// references it holds were allocated before that point (not merely before now)
		if cur := x.heap(st, "$alloc", "Int"); cur != "$alloc"+v[i:] {
			wf = strings.ReplaceAll(wf, " "+cur+")", " $alloc"+v[i:]+")")
		}
	}
	st.emit(fmt.Sprintf("(assert (forall (%s) (! %s :pattern (%s))))", binders, wf, cell))
}

func allDigits(s string) bool {
	if s == "" {
		return false
	}
	for _, c := range s {
		if c < '0' || c > '9' {
			return false
		}
	}
	return true
}

func (x *Exec) freshConst(st *State, prefix, srt string) string {
	v := x.ctx.fresh(prefix)
	st.emit(fmt.Sprintf("(declare-const %s %s)", v, srt))
	return v
}

func (x *Exec) structCanon(t types.Type) (string, *types.Struct) {
	st, _ := t.Underlying().(*types.Struct)
	return x.ctx.structName(t), st
}

func (x *Exec) fieldHeap(structT types.Type, i int) (string, string) {
	sn, st := x.structCanon(structT)
	n := "F$" + sn + "$" + st.Field(i).Name()
	if _, ok := x.heapElem[n]; !ok {
		x.heapElem[n] = st.Field(i).Type()
	}
	return n, fmt.Sprintf("(Array Int %s)", x.ctx.sortOf(st.Field(i).Type()))
}

// heapTypeKey: integer element types get their own heap (typing invariants differ); other
// element types are keyed by sort.
func (x *Exec) heapTypeKey(t types.Type) string {
	if bits, signed, ok := intInfo(t); ok {
		if signed {
			return fmt.Sprintf("i%d", bits)
		}
		return fmt.Sprintf("u%d", bits)
	}
	switch u := t.Underlying().(type) {
	case *types.Pointer:
		// slices / maps of different pointer types cannot alias: one heap per pointee type
		if _, isStruct := u.Elem().Underlying().(*types.Struct); isStruct {
			return "p" + x.ctx.structName(u.Elem())
		}
	}
	return mangle(x.ctx.sortOf(t))
}

func (x *Exec) elemHeap(elemT types.Type) (string, string) {
	s := x.ctx.sortOf(elemT)
	n := "E$" + x.heapTypeKey(elemT)
	if _, ok := x.heapElem[n]; !ok {
		x.heapElem[n] = elemT
	}
	return n, fmt.Sprintf("(Array Int (Array Int %s))", s)
}

// atFn: element access function at_T(heap, slice, i) = heap[arr(slice)][off(slice)+i]; it keeps
// quantifier triggers free of arithmetic.
func (x *Exec) atFn(elemT types.Type) string {
	fn := "at_" + x.heapTypeKey(elemT)
	if !x.ctx.hasDecl(fn) {
		s := x.ctx.sortOf(elemT)
		x.ctx.addDecl(fn, fmt.Sprintf("(declare-fun %s ((Array Int (Array Int %s)) Slice Int) %s)", fn, s, s))
		x.ctx.addAxiom(fn, fmt.Sprintf("(assert (forall ((h (Array Int (Array Int %s))) (s Slice) (i Int)) (! (= (%s h s i) (select (select h (s_arr s)) (+ (s_off s) i))) :pattern ((%s h s i)))))", s, fn, fn))
	}
	return fn
}

func (x *Exec) boxHeap(elemT types.Type) (string, string) {
	s := x.ctx.sortOf(elemT)
	n := "P$" + x.heapTypeKey(elemT)
	if _, ok := x.heapElem[n]; !ok {
		x.heapElem[n] = elemT
	}
	return n, fmt.Sprintf("(Array Int %s)", s)
}

func (x *Exec) mapHeaps(mt *types.Map) (string, string, string, string) {
	ks, vs := x.ctx.sortOf(mt.Key()), x.ctx.sortOf(mt.Elem())
	n := mangle(ks) + "$" + x.heapTypeKey(mt.Elem())
	if _, ok := x.heapElem["MV$"+n]; !ok {
		x.heapElem["MV$"+n] = mt.Elem()
		x.heapKey["MV$"+n] = ks
	}
	return "MD$" + n, fmt.Sprintf("(Array Int (Array %s Bool))", ks), "MV$" + n, fmt.Sprintf("(Array Int (Array %s %s))", ks, vs)
}

func (x *Exec) alloc(st *State) string {
	a := x.heap(st, "$alloc", "Int")
	r := x.freshConst(st, "ref", "Int")
	st.assume(eq(r, a))
	x.setHeap(st, "$alloc", "Int", "(+ "+a+" 1)")
	return r
}

// ---------------------------------------------------------------------------------------------
// values

func isStruct(t types.Type) bool  { _, ok := t.Underlying().(*types.Struct); return ok }
func isArray(t types.Type) bool   { _, ok := t.Underlying().(*types.Array); return ok }
func isPointer(t types.Type) bool { _, ok := t.Underlying().(*types.Pointer); return ok }

func (x *Exec) valFromTerm(term string, t types.Type) Val {
	v := Val{T: term, Ty: t}
	if p, ok := t.Underlying().(*types.Pointer); ok {
		v.Loc = &Loc{Kind: LRef, Ref: term, Elem: p.Elem()}
	}
	return v
}

func (x *Exec) zeroVal(t types.Type) Val {
	return x.valFromTerm(x.ctx.zeroOf(t), t)
}

// termOf returns the SMT term of a value that must be stored / passed as a term.
func (x *Exec) termOf(st *State, v Val) string {
	if v.T != "" {
		return v.T
	}
	if v.Loc != nil {
		return x.locTerm(st, v.Loc)
	}
	if v.Clo != nil {
		// opaque function value
		name := "fn_" + mangle(v.Clo.Fn.String())
		if len(v.Clo.Bindings) == 0 {
			x.ctx.addDecl(name, fmt.Sprintf("(declare-const %s Int)", name))
			x.ctx.addAxiom(name, fmt.Sprintf("(assert (> %s 0))", name))
			return name
		}
		c := x.freshConst(st, "closure", "Int")
		st.assume("(> " + c + " 0)")
		return c
	}
	if v.It != nil {
		return "0"
	}
	x.unsup("value without term")
	return ""
}

func (x *Exec) locTerm(st *State, l *Loc) string {
	switch l.Kind {
	case LRef:
		return l.Ref
	case LField:
		if l.Parent.Kind == LRef || l.Parent.Kind == LField {
			sn, stt := x.structCanon(l.Parent.Elem)
			return fmt.Sprintf("(fieldptr %s %d)", x.locTerm(st, l.Parent), x.ctx.fieldID(sn, stt.Field(l.Field).Name()))
		}
	}
	x.unsup("escaping pointer to %s", l.String())
	return ""
}

func intInfo(t types.Type) (bits int, signed bool, ok bool) {
	b, isB := t.Underlying().(*types.Basic)
	if !isB || b.Info()&types.IsInteger == 0 {
		return 0, false, false
	}
	switch b.Kind() {
	case types.Int8:
		return 8, true, true
	case types.Int16:
		return 16, true, true
	case types.Int32:
		return 32, true, true
	case types.Int64, types.Int, types.UntypedInt, types.UntypedRune:
		return 64, true, true
	case types.Uint8:
		return 8, false, true
	case types.Uint16:
		return 16, false, true
	case types.Uint32:
		return 32, false, true
	case types.Uint64, types.Uint, types.Uintptr:
		return 64, false, true
	}
	return 64, true, true
}

func intRange(bits int, signed bool) (string, string) {
	if signed {
		if bits == 64 {
			return "(- 9223372036854775808)", "9223372036854775807"
		}
		h := uint64(1) << uint(bits-1)
		return fmt.Sprintf("(- %d)", h), fmt.Sprint(h - 1)
	}
	if bits == 64 {
		return "0", "18446744073709551615"
	}
	return "0", fmt.Sprint((uint64(1) << uint(bits)) - 1)
}

// wfTerm returns the well-formedness (typing invariant) formula of a term of Go type t.
func (x *Exec) wfTerm(st *State, term string, t types.Type, depth int) string {
	switch u := t.Underlying().(type) {
	case *types.Basic:
		if bits, signed, ok := intInfo(t); ok {
			lo, hi := intRange(bits, signed)
			return fmt.Sprintf("(and (<= %s %s) (<= %s %s))", lo, term, term, hi)
		}
		return "true"
	case *types.Pointer, *types.Map, *types.Chan:
		a := x.heap(st, "$alloc", "Int")
		return fmt.Sprintf("(and (<= 0 %s) (< %s %s))", term, term, a)
	case *types.Signature:
		return fmt.Sprintf("(<= 0 %s)", term)
	case *types.Slice:
		a := x.heap(st, "$alloc", "Int")
		return fmt.Sprintf("(and (<= 0 (s_off %[1]s)) (<= 0 (s_len %[1]s)) (<= (s_len %[1]s) (s_cap %[1]s)) (<= (s_cap %[1]s) 1152921504606846976) (<= 0 (s_arr %[1]s)) (< (s_arr %[1]s) %[2]s) (=> (= (s_arr %[1]s) 0) (= (s_cap %[1]s) 0)))", term, a)
	case *types.Interface:
		a := x.heap(st, "$alloc", "Int")
		return fmt.Sprintf("(and (<= 0 (i_tag %[1]s)) (=> (= (i_tag %[1]s) 0) (= (i_val %[1]s) 0)) (< (i_val %[1]s) %[2]s))", term, a)
	case *types.Struct:
		if depth <= 0 {
			return "true"
		}
		sn := x.ctx.structName(t)
		var cs []string
		for i := 0; i < u.NumFields(); i++ {
			cs = append(cs, x.wfTerm(st, fmt.Sprintf("(%s %s)", x.ctx.fieldAcc(sn, u, i), term), u.Field(i).Type(), depth-1))
		}
		return and(cs...)
	}
	return "true"
}

func (x *Exec) assumeWF(st *State, term string, t types.Type) {
	st.assume(x.wfTerm(st, term, t, 3))
}

// ---------------------------------------------------------------------------------------------
// load / store

func (x *Exec) load(st *State, l *Loc) Val {
	switch l.Kind {
	case LCell:
		return st.cells[l.Cell]
	case LGlobal:
		return x.valFromTerm(x.heap(st, l.Global, x.ctx.sortOf(l.Elem)), l.Elem)
	}
	t := x.loadTerm(st, l)
	return x.valFromTerm(t, l.Elem)
}

func (x *Exec) loadTerm(st *State, l *Loc) string {
	switch l.Kind {
	case LRef:
		if stt, ok := l.Elem.Underlying().(*types.Struct); ok {
			sn := x.ctx.structName(l.Elem)
			if stt.NumFields() == 0 {
				return "mk_" + sn
			}
			var fs []string
			for i := 0; i < stt.NumFields(); i++ {
				hn, hs := x.fieldHeap(l.Elem, i)
				fs = append(fs, sel(x.heap(st, hn, hs), l.Ref))
			}
			return fmt.Sprintf("(mk_%s %s)", sn, strings.Join(fs, " "))
		}
		if at, ok := l.Elem.Underlying().(*types.Array); ok {
			hn, hs := x.elemHeap(at.Elem())
			return sel(x.heap(st, hn, hs), l.Ref)
		}
		hn, hs := x.boxHeap(l.Elem)
		return sel(x.heap(st, hn, hs), l.Ref)
	case LField:
		p := l.Parent
		if p.Kind == LRef {
			hn, hs := x.fieldHeap(p.Elem, l.Field)
			return sel(x.heap(st, hn, hs), p.Ref)
		}
		sn, stt := x.structCanon(p.Elem)
		return fmt.Sprintf("(%s %s)", x.ctx.fieldAcc(sn, stt, l.Field), x.loadTerm(st, p))
	case LElem:
		hn, hs := x.elemHeap(l.Elem)
		return app(x.atFn(l.Elem), x.heap(st, hn, hs), l.Arr, l.Idx)
	case LArrIdx:
		return sel(x.loadTerm(st, l.Parent), l.Idx)
	case LCell:
		return x.termOf(st, st.cells[l.Cell])
	case LGlobal:
		return x.heap(st, l.Global, x.ctx.sortOf(l.Elem))
	}
	x.unsup("load from %s", l)
	return ""
}

func (x *Exec) store(st *State, l *Loc, v Val) {
	switch l.Kind {
	case LCell:
		st.cells[l.Cell] = v
		return
	}
	x.storeTerm(st, l, x.termOf(st, v))
}

func (x *Exec) storeTerm(st *State, l *Loc, t string) {
	switch l.Kind {
	case LRef:
		if stt, ok := l.Elem.Underlying().(*types.Struct); ok {
			sn := x.ctx.structName(l.Elem)
			for i := 0; i < stt.NumFields(); i++ {
				hn, hs := x.fieldHeap(l.Elem, i)
				h := x.heap(st, hn, hs)
				x.setHeap(st, hn, hs, sto(h, l.Ref, fmt.Sprintf("(%s %s)", x.ctx.fieldAcc(sn, stt, i), t)))
			}
			return
		}
		if at, ok := l.Elem.Underlying().(*types.Array); ok {
			hn, hs := x.elemHeap(at.Elem())
			x.setHeap(st, hn, hs, sto(x.heap(st, hn, hs), l.Ref, t))
			return
		}
		hn, hs := x.boxHeap(l.Elem)
		x.setHeap(st, hn, hs, sto(x.heap(st, hn, hs), l.Ref, t))
	case LField:
		p := l.Parent
		if p.Kind == LRef {
			hn, hs := x.fieldHeap(p.Elem, l.Field)
			x.setHeap(st, hn, hs, sto(x.heap(st, hn, hs), p.Ref, t))
			return
		}
		// nested: rebuild the parent's struct value
		sn, stt := x.structCanon(p.Elem)
		old := x.loadTerm(st, p)
		var fs []string
		for i := 0; i < stt.NumFields(); i++ {
			if i == l.Field {
				fs = append(fs, t)
			} else {
				fs = append(fs, fmt.Sprintf("(%s %s)", x.ctx.fieldAcc(sn, stt, i), old))
			}
		}
		x.storeTerm(st, p, fmt.Sprintf("(mk_%s %s)", sn, strings.Join(fs, " ")))
	case LElem:
		hn, hs := x.elemHeap(l.Elem)
		h := x.heap(st, hn, hs)
		arr, abs := "(s_arr "+l.Arr+")", "(+ (s_off "+l.Arr+") "+l.Idx+")"
		x.setHeap(st, hn, hs, sto(h, arr, sto(sel(h, arr), abs, t)))
		// ground fact in at_T form (creates the term quantifier triggers look for)
		st.assume(eq(app(x.atFn(l.Elem), st.heaps[hn], l.Arr, l.Idx), t))
		// pointwise frame in at_T form (a consequence of the at_T axiom and the store): every other
		// element read carries over, so invariants stated with at_T match across the store
		at := x.atFn(l.Elem)
		st.emit(fmt.Sprintf("(assert (forall ((s Slice) (i Int)) (! (=> (or (not (= (s_arr s) %s)) (not (= (+ (s_off s) i) %s))) (= (%s %s s i) (%s %s s i))) :pattern ((%s %s s i)))))", arr, abs, at, st.heaps[hn], at, h, at, st.heaps[hn]))
	case LArrIdx:
		x.storeTerm(st, l.Parent, sto(x.loadTerm(st, l.Parent), l.Idx, t))
	case LGlobal:
		x.setHeap(st, l.Global, x.ctx.sortOf(l.Elem), t)
	case LCell:
		st.cells[l.Cell] = x.valFromTerm(t, l.Elem)
	default:
		x.unsup("store to %s", l)
	}
}

// ---------------------------------------------------------------------------------------------
// obligations

func (x *Exec) ordinalFor(ins ssa.Instruction, kind, hint string) string {
	if x.instrOrd == nil {
		x.instrOrd = map[ssa.Instruction]string{}
		x.ordinals = map[string]int{}
	}
	if s, ok := x.instrOrd[ins]; ok {
		return s
	}
	k := kind + ":" + hint
	x.ordinals[k]++
	s := fmt.Sprintf("%s#%d", hint, x.ordinals[k])
	if hint == "" {
		s = fmt.Sprintf("#%d", x.ordinals[k])
	}
	x.instrOrd[ins] = s
	return s
}

func (x *Exec) fnName(fn *ssa.Function) string {
	if fn.Pkg != nil {
		return fn.Pkg.Pkg.Path() + "." + fn.RelString(fn.Pkg.Pkg)
	}
	return fn.String()
}

// oblige records a proof obligation `goal` at the current point of the path and then assumes it.
func (x *Exec) oblige(st *State, kind, detail string, goal string, tags []string, desc string) {
	if st.dead {
		return
	}
	if x.mode == "post-only" && strings.HasPrefix(kind, "safe") {
		st.assume(goal)
		return
	}
	if strings.HasPrefix(goal, "(and ") && kind != "cover" {
		// split conjunctions: smaller queries, and the failing conjunct is named
		parts := flattenAnd(goal)
		if len(parts) > 1 && len(parts) <= 48 {
			for i, p := range parts {
				x.oblige(st, kind, fmt.Sprintf("%s.%d", detail, i), p, tags, desc+fmt.Sprintf(" [conjunct %d]", i))
			}
			return
		}
	}
	name := x.curKey + "#" + kind
	if detail != "" {
		name += ":" + detail
	}
	ob := &Obligation{Name: name, Fn: x.curKey, Kind: kind, Tags: tags, Desc: desc, Path: append([]string(nil), st.pcDesc...)}
	if goal == "true" {
		ob.Result, ob.Trivial, ob.Solver = "unsat", true, "syntactic"
	} else {
		body := st.scriptText() + x.negatedGoal(goal) + "(check-sat)\n"
		ob.Query = body
		ob.CETerms = x.ceTerms(st)
	}
	x.obls = append(x.obls, ob)
	st.assume(goal)
}

// negatedGoal asserts the negation of the goal. A goal `forall xs {triggers} :: body` is
// skolemized here (the bound names are unique, so they are declared as constants) and every user
// trigger term becomes a ground "seed" term, so that quantified hypotheses with the same trigger
// are instantiated at the skolem constants (E-matching finds no ground term inside the nested
// quantifiers of the negated body otherwise). Equivalent to (assert (not goal)).
func (x *Exec) negatedGoal(goal string) string {
	plain := "(assert (not " + goal + "))\n"
	if !strings.HasPrefix(goal, "(forall (") {
		return plain
	}
	parts := sexprSplit(goal[1 : len(goal)-1])
	if len(parts) != 3 {
		return plain
	}
	var sb strings.Builder
	for _, b := range sexprSplit(parts[1][1 : len(parts[1])-1]) {
		bs := sexprSplit(b[1 : len(b)-1])
		if len(bs) != 2 {
			return plain
		}
		fmt.Fprintf(&sb, "(declare-const %s %s)\n", bs[0], bs[1])
	}
	body := parts[2]
	if strings.HasPrefix(body, "(! ") {
		bp := sexprSplit(body[1 : len(body)-1])
		if len(bp) < 2 {
			return plain
		}
		body = bp[1]
		seedNo := 0
		for i := 2; i+1 < len(bp); i += 2 {
			if bp[i] != ":pattern" {
				continue
			}
			for _, t := range sexprSplit(bp[i+1][1 : len(bp[i+1])-1]) {
				if srt, ok := x.ctx.patSortOf(t); ok {
					seedNo++
					fn := fmt.Sprintf("seed!%d", seedNo)
					fmt.Fprintf(&sb, "(declare-fun %s (%s) Bool)\n(assert (%s %s))\n", fn, srt, fn, t)
				}
			}
		}
	}
	fmt.Fprintf(&sb, "(assert (not %s))\n", body)
	return sb.String()
}

// sexprSplit splits the text of a list body into its top-level elements.
func sexprSplit(s string) []string {
	var out []string
	i := 0
	for i < len(s) {
		for i < len(s) && (s[i] == ' ' || s[i] == '\n' || s[i] == '\t') {
			i++
		}
		if i >= len(s) {
			break
		}
		start := i
		switch s[i] {
		case '(':
			d := 0
			for i < len(s) {
				if s[i] == '|' {
					i++
					for i < len(s) && s[i] != '|' {
						i++
					}
				} else if s[i] == '"' {
					i++
					for i < len(s) && s[i] != '"' {
						i++
					}
				} else if s[i] == '(' {
					d++
				} else if s[i] == ')' {
					d--
					if d == 0 {
						i++
						break
					}
				}
				i++
			}
		case '|':
			i++
			for i < len(s) && s[i] != '|' {
				i++
			}
			i++
		default:
			for i < len(s) && s[i] != ' ' && s[i] != '(' && s[i] != ')' && s[i] != '\n' {
				i++
			}
		}
		out = append(out, s[start:i])
	}
	return out
}

// ceTerms: terms whose model values describe a counterexample: entry parameters and the named
// local values visible at the failing point, unfolded through the heap to a small depth.
func (x *Exec) ceTerms(st *State) []ceTerm {
	var out []ceTerm
	seen := map[string]bool{}
	add := func(label string, v Val) {
		for _, t := range x.describe(st, label, v, 6) {
			if !seen[t.Label] && len(out) < 400 {
				seen[t.Label] = true
				out = append(out, t)
			}
		}
	}
	names := make([]string, 0, len(x.entryVars))
	for n := range x.entryVars {
		names = append(names, n)
	}
	sort.Strings(names)
	for _, n := range names {
		if n == "self" && len(names) > 1 {
			continue
		}
		add(n, x.entryVars[n])
	}
	// named locals of the innermost frames
	for i := len(st.frames) - 1; i >= 0 && i >= len(st.frames)-2; i-- {
		f := st.frames[i]
		if f.fn == nil {
			continue
		}
		fi := x.info(f.fn)
		var ln []string
		for n := range fi.names {
			ln = append(ln, n)
		}
		sort.Strings(ln)
		for _, n := range ln {
			if _, isParam := x.entryVars[n]; isParam && i == 0 {
				continue
			}
			if v, ok := x.lookupNameIn(st, i, n); ok {
				add("local."+n, v)
			}
		}
	}
	return out
}

func (x *Exec) describe(st *State, label string, v Val, depth int) []ceTerm {
	if v.Ty == nil || v.T == "" || depth < 0 {
		if v.Ty != nil && v.Loc != nil && v.Loc.Kind == LRef {
			v.T = v.Loc.Ref
		} else {
			return nil
		}
	}
	var out []ceTerm
	switch u := v.Ty.Underlying().(type) {
	case *types.Basic:
		if u.Info()&(types.IsInteger|types.IsBoolean) != 0 {
			out = append(out, ceTerm{label, v.T})
		}
		if u.Info()&types.IsString != 0 {
			out = append(out, ceTerm{label + ".strlen", "(strlen " + v.T + ")"})
		}
	case *types.Pointer:
		out = append(out, ceTerm{label + ".ref", v.T})
		if stt, ok := u.Elem().Underlying().(*types.Struct); ok && depth > 0 {
			for i := 0; i < stt.NumFields(); i++ {
				hn, _ := x.fieldHeap(u.Elem(), i)
				h, ok := st.heaps[hn]
				if !ok {
					continue
				}
				fv := x.valFromTerm(sel(h, v.T), stt.Field(i).Type())
				out = append(out, x.describe(st, label+"."+stt.Field(i).Name(), fv, depth-1)...)
			}
		}
	case *types.Slice:
		out = append(out, ceTerm{label + ".len", "(s_len " + v.T + ")"})
		hn, _ := x.elemHeap(u.Elem())
		h, ok := st.heaps[hn]
		if !ok || depth == 0 {
			return out
		}
		n := 3
		if bits, _, isInt := intInfo(u.Elem()); isInt && bits == 8 {
			n = 16
		}
		for i := 0; i < n; i++ {
			ev := x.valFromTerm(app(x.atFn(u.Elem()), h, v.T, fmt.Sprint(i)), u.Elem())
			out = append(out, x.describe(st, fmt.Sprintf("%s[%d]", label, i), ev, depth-1)...)
		}
	case *types.Struct:
		sn := x.ctx.structName(v.Ty)
		for i := 0; i < u.NumFields(); i++ {
			fv := x.valFromTerm(fmt.Sprintf("(%s %s)", x.ctx.fieldAcc(sn, u, i), v.T), u.Field(i).Type())
			out = append(out, x.describe(st, label+"."+u.Field(i).Name(), fv, depth-1)...)
		}
	case *types.Map:
		out = append(out, ceTerm{label + ".ref", v.T})
	case *types.Interface:
		out = append(out, ceTerm{label + ".tag", "(i_tag " + v.T + ")"})
	}
	return out
}

func (x *Exec) gap(what string) {
	x.gaps = append(x.gaps, Gap{x.curKey, what})
}

// ---------------------------------------------------------------------------------------------
// operands

func (x *Exec) operand(st *State, v ssa.Value) Val {
	switch c := v.(type) {
	case *ssa.Const:
		return x.constVal(c)
	case *ssa.Global:
		name := "GV$" + c.Pkg.Pkg.Path() + "." + c.Name()
		elem := c.Type().(*types.Pointer).Elem()
		if _, ok := x.heapElem[name]; !ok {
			x.heapElem[name] = elem
		}
		return Val{Ty: c.Type(), Loc: &Loc{Kind: LGlobal, Global: name, Elem: elem}}
	case *ssa.Function:
		return Val{Ty: c.Type(), Clo: &Closure{Fn: c}}
	case *ssa.Builtin:
		return Val{Ty: c.Type()}
	}
	f := st.top()
	if val, ok := f.env[v]; ok {
		return val
	}
	x.unsup("operand %s (%T) not evaluated", v.Name(), v)
	return Val{}
}

func (x *Exec) constVal(c *ssa.Const) Val {
	t := c.Type()
	if c.Value == nil {
		return x.zeroVal(t)
	}
	switch c.Value.Kind() {
	case constant.Bool:
		if constant.BoolVal(c.Value) {
			return Val{T: "true", Ty: t}
		}
		return Val{T: "false", Ty: t}
	case constant.String:
		return Val{T: x.ctx.strLit(constant.StringVal(c.Value)), Ty: t}
	case constant.Int:
		if b, ok := t.Underlying().(*types.Basic); ok && b.Info()&types.IsFloat != 0 {
			return Val{T: intLit(c.Value.ExactString()) + ".0", Ty: t}
		}
		return Val{T: intLit(c.Value.ExactString()), Ty: t}
	case constant.Float:
		f, _ := constant.Float64Val(c.Value)
		s := fmt.Sprintf("%f", f)
		if strings.HasPrefix(s, "-") {
			s = "(- " + s[1:] + ")"
		}
		return Val{T: s, Ty: t}
	}
	x.unsup("constant %s", c)
	return Val{}
}

// ---------------------------------------------------------------------------------------------
// arithmetic

func wrapUnsigned(t string, bits int) string {
	return "(mod " + t + " " + pow2(bits) + ")"
}
func wrapSigned(t string, bits int) string {
	h := pow2(bits - 1)
	return "(- (mod (+ " + t + " " + h + ") " + pow2(bits) + ") " + h + ")"
}

func isIntLit(s string) (uint64, bool) {
	if s == "" || s[0] < '0' || s[0] > '9' {
		return 0, false
	}
	var v uint64
	for i := 0; i < len(s); i++ {
		if s[i] < '0' || s[i] > '9' {
			return 0, false
		}
		v = v*10 + uint64(s[i]-'0')
	}
	return v, true
}

func tdiv(a, b string) string {
	if _, ok := isIntLit(b); ok {
		return fmt.Sprintf("(ite (>= %[1]s 0) (div %[1]s %[2]s) (- (div (- %[1]s) %[2]s)))", a, b)
	}
	return fmt.Sprintf("(ite (>= %[1]s 0) (ite (> %[2]s 0) (div %[1]s %[2]s) (- (div %[1]s (- %[2]s)))) (ite (> %[2]s 0) (- (div (- %[1]s) %[2]s)) (div (- %[1]s) (- %[2]s))))", a, b)
}
func trem(a, b string) string {
	abs := fmt.Sprintf("(ite (>= %[1]s 0) %[1]s (- %[1]s))", b)
	if _, ok := isIntLit(b); ok {
		abs = b
	}
	return fmt.Sprintf("(ite (>= %[1]s 0) (mod %[1]s %[2]s) (- (mod (- %[1]s) %[2]s)))", a, abs)
}

// knownBits: v < 2^hi and v is a multiple of 2^lo (hi == 0: unknown)
func knownBits(v Val, t types.Type) (int, int) {
	if v.Hi > 0 {
		return v.Hi, v.Lo
	}
	if k, ok := isIntLit(v.T); ok {
		hi, lo := 0, 0
		for kk := k; kk > 0; kk >>= 1 {
			hi++
		}
		if k == 0 {
			return 1, 64
		}
		for kk := k; kk&1 == 0; kk >>= 1 {
			lo++
		}
		return hi, lo
	}
	if bits, signed, ok := intInfo(t); ok && !signed {
		return bits, 0
	}
	return 0, 0
}

func (x *Exec) binop(st *State, ins *ssa.BinOp) Val {
	a, b := x.operand(st, ins.X), x.operand(st, ins.Y)
	rt := ins.Type()
	xt := ins.X.Type()
	if _, signed, ok := intInfo(xt); ok && !signed {
		ah, al := knownBits(a, xt)
		bh, bl := knownBits(b, ins.Y.Type())
		switch ins.Op {
		case token.OR, token.XOR:
			if ah > 0 && bh > 0 && (ah <= bl || bh <= al) {
				hi, lo := ah, al
				if bh > hi {
					hi = bh
				}
				if bl < lo {
					lo = bl
				}
				return Val{T: app("+", a.T, b.T), Ty: rt, Hi: hi, Lo: lo}
			}
		case token.SHL:
			if k, ok := isIntLit(b.T); ok && ah > 0 {
				bits, _, _ := intInfo(xt)
				if ah+int(k) <= bits {
					return Val{T: app("*", a.T, pow2(int(k))), Ty: rt, Hi: ah + int(k), Lo: al + int(k)}
				}
			}
		}
	}
	switch ins.Op {
	case token.EQL, token.NEQ:
		e := x.equal(st, a, b, xt)
		if ins.Op == token.NEQ {
			e = not(e)
		}
		return Val{T: e, Ty: rt}
	}
	ub, _ := xt.Underlying().(*types.Basic)
	if ub != nil && ub.Info()&types.IsString != 0 {
		switch ins.Op {
		case token.ADD:
			return Val{T: app("str_cat", a.T, b.T), Ty: rt}
		case token.LSS:
			return Val{T: app("str_lt", a.T, b.T), Ty: rt}
		case token.GTR:
			return Val{T: app("str_lt", b.T, a.T), Ty: rt}
		case token.LEQ:
			return Val{T: not(app("str_lt", b.T, a.T)), Ty: rt}
		case token.GEQ:
			return Val{T: not(app("str_lt", a.T, b.T)), Ty: rt}
		}
	}
	if ub != nil && ub.Info()&types.IsFloat != 0 {
		switch ins.Op {
		case token.ADD:
			return Val{T: app("+", a.T, b.T), Ty: rt}
		case token.SUB:
			return Val{T: app("-", a.T, b.T), Ty: rt}
		case token.MUL:
			return Val{T: app("*", a.T, b.T), Ty: rt}
		case token.QUO:
			return Val{T: x.freshConst(st, "fdiv", "Real"), Ty: rt}
		case token.LSS:
			return Val{T: app("<", a.T, b.T), Ty: rt}
		case token.LEQ:
			return Val{T: app("<=", a.T, b.T), Ty: rt}
		case token.GTR:
			return Val{T: app(">", a.T, b.T), Ty: rt}
		case token.GEQ:
			return Val{T: app(">=", a.T, b.T), Ty: rt}
		}
	}
	if ub != nil && ub.Info()&types.IsBoolean != 0 {
		switch ins.Op {
		case token.AND, token.LAND:
			return Val{T: and(a.T, b.T), Ty: rt}
		case token.OR, token.LOR:
			return Val{T: or(a.T, b.T), Ty: rt}
		}
	}
	bits, signed, ok := intInfo(xt)
	if !ok {
		x.unsup("binop %s on %s", ins.Op, xt)
	}
	switch ins.Op {
	case token.LSS:
		return Val{T: app("<", a.T, b.T), Ty: rt}
	case token.LEQ:
		return Val{T: app("<=", a.T, b.T), Ty: rt}
	case token.GTR:
		return Val{T: app(">", a.T, b.T), Ty: rt}
	case token.GEQ:
		return Val{T: app(">=", a.T, b.T), Ty: rt}
	}
	arith := func(raw string) Val {
		if !signed {
			return Val{T: wrapUnsigned(raw, bits), Ty: rt}
		}
		if bits < 64 {
			return Val{T: wrapSigned(raw, bits), Ty: rt}
		}
		// signed 64-bit: mathematical result plus a no-overflow obligation
		r := x.freshConst(st, "ar", "Int")
		st.assume(eq(r, raw))
		if x.curCon == nil || !x.curCon.MathInt {
			lo, hi := intRange(64, true)
			x.oblige(st, "overflow", x.ordinalFor(ins, "overflow", ins.Op.String()),
				fmt.Sprintf("(and (<= %s %s) (<= %s %s))", lo, r, r, hi), []string{"C18"}, "signed 64-bit "+ins.Op.String()+" does not overflow")
		}
		return Val{T: r, Ty: rt}
	}
	switch ins.Op {
	case token.ADD:
		return arith(app("+", a.T, b.T))
	case token.SUB:
		return arith(app("-", a.T, b.T))
	case token.MUL:
		return arith(app("*", a.T, b.T))
	case token.QUO:
		x.oblige(st, "safe:div", x.ordinalFor(ins, "safe:div", ""), not(eq(b.T, "0")), []string{"C18"}, "division by zero")
		if signed {
			return Val{T: tdiv(a.T, b.T), Ty: rt}
		}
		return Val{T: app("div", a.T, b.T), Ty: rt}
	case token.REM:
		x.oblige(st, "safe:div", x.ordinalFor(ins, "safe:div", ""), not(eq(b.T, "0")), []string{"C18"}, "division by zero")
		if signed {
			return Val{T: trem(a.T, b.T), Ty: rt}
		}
		return Val{T: app("mod", a.T, b.T), Ty: rt}
	case token.SHL:
		if k, ok := isIntLit(b.T); ok && k < 64 {
			raw := app("*", a.T, pow2(int(k)))
			if signed {
				return Val{T: wrapSigned(raw, bits), Ty: rt}
			}
			return Val{T: wrapUnsigned(raw, bits), Ty: rt}
		}
	case token.SHR:
		if k, ok := isIntLit(b.T); ok && k < 64 && !signed {
			return Val{T: app("div", a.T, pow2(int(k))), Ty: rt}
		}
	case token.AND:
		for _, p := range [][2]string{{a.T, b.T}, {b.T, a.T}} {
			if k, ok := isIntLit(p[1]); ok && k != 0 && (k+1)&k == 0 && !signed {
				return Val{T: app("mod", p[0], fmt.Sprint(k+1)), Ty: rt}
			}
			if p[1] == "0" {
				return Val{T: "0", Ty: rt}
			}
		}
	case token.XOR:
		if k, ok := isIntLit(b.T); ok && !signed && k == (uint64(1)<<uint(bits))-1 && bits < 64 {
			return Val{T: app("-", b.T, a.T), Ty: rt}
		}
	case token.OR:
		if a.T == "0" {
			return Val{T: b.T, Ty: rt}
		}
		if b.T == "0" {
			return Val{T: a.T, Ty: rt}
		}
	}
	// uninterpreted bit operation, result in range
	var f string
	switch ins.Op {
	case token.AND:
		f = "bv_and"
	case token.OR:
		f = "bv_or"
	case token.XOR:
		f = "bv_xor"
	case token.SHL:
		f = "bv_shl"
	case token.SHR:
		f = "bv_shr"
	case token.AND_NOT:
		f = "bv_and"
		b.T = app("bv_xor", b.T, "(- 1)")
	default:
		x.unsup("binop %s", ins.Op)
	}
	r := x.freshConst(st, "bits", "Int")
	st.assume(eq(r, app(f, a.T, b.T)))
	x.assumeWF(st, r, rt)
	return Val{T: r, Ty: rt}
}

func (x *Exec) equal(st *State, a, b Val, t types.Type) string {
	switch t.Underlying().(type) {
	case *types.Slice:
		// only comparison with nil is legal
		if b.T == "slice_nil" || b.T == "(mk_slice 0 0 0 0)" {
			return eq("(s_arr "+a.T+")", "0")
		}
		if a.T == "slice_nil" || a.T == "(mk_slice 0 0 0 0)" {
			return eq("(s_arr "+b.T+")", "0")
		}
	case *types.Signature:
		if a.Clo != nil && b.Clo == nil {
			return eq(b.T, "0") + ""
		}
		if b.Clo != nil && a.Clo == nil {
			return "false"
		}
	case *types.Interface:
		return eq(x.termOf(st, a), x.termOf(st, b))
	}
	if a.Clo != nil || b.Clo != nil {
		if a.Clo != nil && b.Clo != nil {
			return "false"
		}
		if a.Clo != nil {
			return "false"
		}
		return "false"
	}
	return eq(x.termOf(st, a), x.termOf(st, b))
}

func (x *Exec) convertInt(st *State, term string, from, to types.Type) string {
	fb, fs, ok1 := intInfo(from)
	tb, ts, ok2 := intInfo(to)
	if !ok1 || !ok2 {
		return term
	}
	// source range included in target range: identity
	if fs == ts && fb <= tb {
		return term
	}
	if !fs && ts && fb < tb {
		return term
	}
	if ts {
		return wrapSigned(term, tb)
	}
	return wrapUnsigned(term, tb)
}

// flattenAnd splits a term "(and a b (and c d))" into its conjuncts.
func flattenAnd(t string) []string {
	if !strings.HasPrefix(t, "(and ") || !strings.HasSuffix(t, ")") {
		return []string{t}
	}
	inner := t[5 : len(t)-1]
	var parts []string
	depth, start := 0, 0
	for i := 0; i < len(inner); i++ {
		switch inner[i] {
		case '(':
			depth++
		case ')':
			depth--
		case ' ':
			if depth == 0 {
				if start < i {
					parts = append(parts, inner[start:i])
				}
				start = i + 1
			}
		}
	}
	if start < len(inner) {
		parts = append(parts, inner[start:])
	}
	var out []string
	for _, p := range parts {
		out = append(out, flattenAnd(p)...)
	}
	return out
}
