package main

import (
	"encoding/json"
	"flag"
	"fmt"
	"os"
	"os/exec"
	"path/filepath"
	"regexp"
	"runtime"
	"sort"
	"strconv"
	"strings"
	"time"

	"golang.org/x/tools/go/ssa"
)

type PropCfg struct {
	Packages []string `json:"packages"`
	// SweepFiles: pkgpath -> file base names whose functions get the safety sweep (C18/C19)
	SweepFiles map[string][]string `json:"sweep_files,omitempty"`
	// Kinds: if set, only obligations of these kinds (prefix match, e.g. "lock") count for the property
	Kinds []string `json:"kinds,omitempty"`
	// DescContains: with Kinds, also keep obligations (of any kind, tagged or not) whose clause text
	// contains one of these strings (e.g. "held[": invariants about the lock state)
	DescContains []string `json:"desc_contains,omitempty"`
	Note         string   `json:"note,omitempty"`
	Undecided    []string `json:"claimed_not_decided,omitempty"`
	// Bounded: sampled conformance tests of ASSUMED (trusted) contracts of functions of the repository,
	// run on the real code with every check; labelled bounded, never counted as proved
	Bounded []BoundedCheck `json:"bounded,omitempty"`
}

type BoundedCheck struct {
	Name  string `json:"name"` // obligation name reported on failure
	Pkg   string `json:"pkg"`
	File  string `json:"file"` // under /verif/replay
	Run   string `json:"run"`
	What  string `json:"what"`
	Bound string `json:"bound"`
}

type Config struct {
	Props map[string]*PropCfg `json:"props"`
}

type knownFinding struct {
	Prop, Obligation, What string
	Fixed                  bool
	Line                   string
}

func loadKnown(file string) []knownFinding {
	data, err := os.ReadFile(file)
	if err != nil {
		return nil
	}
	var out []knownFinding
	re := regexp.MustCompile(`^finding:\s+property=(\S+)\s+obligation=(\S+)\s+(.*)$`)
	for _, l := range strings.Split(string(data), "\n") {
		l = strings.TrimSpace(l)
		if m := re.FindStringSubmatch(l); m != nil {
			out = append(out, knownFinding{Prop: m[1], Obligation: m[2], What: m[3], Line: l})
		}
	}
	return out
}

func hasTag(tags []string, p string) bool {
	for _, t := range tags {
		if t == p {
			return true
		}
	}
	return false
}

func main() {
	if len(os.Args) < 2 {
		fmt.Fprintln(os.Stderr, "usage: gverif check|dump ...")
		os.Exit(2)
	}
	switch os.Args[1] {
	case "check":
		os.Exit(cmdCheck(os.Args[2:]))
	default:
		fmt.Fprintln(os.Stderr, "unknown command")
		os.Exit(2)
	}
}

func cmdCheck(args []string) int {
	fs := flag.NewFlagSet("check", flag.ExitOnError)
	prop := fs.String("prop", "", "property id")
	tier := fs.String("tier", "quick", "quick|thorough")
	repo := fs.String("repo", "/repo", "repository root")
	verif := fs.String("verif", "/verif", "verification root")
	only := fs.String("fn", "", "only functions whose key contains this substring (debug)")
	keep := fs.Bool("keep", false, "keep all SMT files")
	verbose := fs.Bool("v", false, "verbose")
	fs.Parse(args)
	if t := os.Getenv("VERIF_TIER"); t != "" && (t == "quick" || t == "thorough") {
		*tier = t
	}
	seed := 0
	if s := os.Getenv("VERIF_SEED"); s != "" {
		seed, _ = strconv.Atoi(s)
	}
	t0 := time.Now()
	runtime.GOMAXPROCS(6) // memory allocation is expensive in this sandbox; fewer Ps load faster
	var cfg Config
	data, err := os.ReadFile(filepath.Join(*verif, "props.json"))
	if err != nil {
		fmt.Fprintln(os.Stderr, err)
		return 2
	}
	if err := json.Unmarshal(data, &cfg); err != nil {
		fmt.Fprintln(os.Stderr, err)
		return 2
	}
	pc := cfg.Props[*prop]
	if pc == nil {
		fmt.Fprintf(os.Stderr, "no configuration for property %s\n", *prop)
		return 2
	}
	L, err := loadRepo(*repo, pc.Packages)
	if err != nil {
		fmt.Printf("UNDECIDED property=%s reason=load failed: %v\n", *prop, err)
		return 2
	}
	loadS := time.Since(t0).Seconds()
	db, err := L.loadContracts(filepath.Join(*verif, "contracts", "external"))
	if err != nil {
		fmt.Printf("UNDECIDED property=%s reason=contract files: %v\n", *prop, err)
		return 2
	}
	x := newExec(L, db)
	x.initGhosts()
	var reports []FuncReport
	var keys []string
	for k, c := range db.Contracts {
		if c.Pkg != "" && hasTag(c.Props, *prop) {
			keys = append(keys, k)
		}
	}
	sort.Strings(keys)
	done := map[*ssa.Function]bool{}
	missing := 0
	for _, k := range keys {
		c := db.Contracts[k]
		if *only != "" && !matchOnly(k, *only) {
			continue
		}
		fn := L.findFunction(c.Pkg, c.Key)
		if fn == nil {
			fmt.Printf("UNDECIDED property=%s reason=function under contract not found: %s\n", *prop, k)
			missing++
			continue
		}
		done[fn] = true
		if c.Trusted {
			// body is checked for safety only; the functional contract is assumed
			reports = append(reports, x.verifyFunc(fn, c, "sweep"))
			reports[len(reports)-1].Mode = "trusted(safety only)"
			continue
		}
		mode := "contract"
		if c.Sweep {
			mode = "sweep"
		}
		reports = append(reports, x.verifyFunc(fn, c, mode))
	}
	// sweep files
	var sp []string
	for p := range pc.SweepFiles {
		sp = append(sp, p)
	}
	sort.Strings(sp)
	for _, p := range sp {
		for _, base := range pc.SweepFiles[p] {
			for _, fn := range L.functionsInFile(p, base) {
				if done[fn] {
					continue
				}
				if *only != "" && !strings.Contains(x.fnName(fn), *only) {
					continue
				}
				done[fn] = true
				c := x.contractFor(fn)
				reports = append(reports, x.verifyFunc(fn, c, "sweep"))
			}
		}
	}
	for i := range db.Lemmas {
		l := &db.Lemmas[i]
		if hasTag(l.Tags, *prop) && (*only == "" || strings.Contains(l.Name, *only)) {
			reports = append(reports, x.verifyLemma(l))
		}
	}
	if os.Getenv("GVERIF_DEBUG") != "" {
		cnt := map[string]int{}
		for _, ob := range x.obls {
			if ob.Kind == "post" {
				for _, d := range ob.Path {
					cnt[d]++
				}
			}
		}
		var ks []string
		for k := range cnt {
			ks = append(ks, k)
		}
		sort.Strings(ks)
		for _, k := range ks {
			fmt.Fprintf(os.Stderr, "branch %-40s %d\n", k, cnt[k])
		}
		os.Exit(0)
	}
	genS := time.Since(t0).Seconds() - loadS
	// attribution: an obligation counts for this property if it is untagged (helper) or tagged with it
	var mine []*Obligation
	for _, ob := range x.obls {
		if len(ob.Tags) == 0 || hasTag(ob.Tags, *prop) {
			if len(pc.Kinds) > 0 && !strings.HasPrefix(ob.Kind, "cover") {
				// a kind-restricted property takes only obligations explicitly tagged with it
				keep := false
				for _, dc := range pc.DescContains {
					if strings.HasPrefix(ob.Kind, "inv-") && strings.Contains(ob.Desc, dc) {
						keep = true
					}
				}
				if keep {
					mine = append(mine, ob)
					continue
				}
				if !hasTag(ob.Tags, *prop) {
					continue
				}
				for _, k := range pc.Kinds {
					if strings.HasPrefix(ob.Kind, k) {
						keep = true
					}
				}
				if !keep {
					continue
				}
			}
			mine = append(mine, ob)
		}
	}
	timeout := 40
	if *tier == "thorough" {
		timeout = 90
	}
	// query directories of earlier runs that were killed (their process is gone) are removed
	if olds, err := filepath.Glob(filepath.Join(os.TempDir(), "gverif-*-*")); err == nil {
		for _, o := range olds {
			i := strings.LastIndex(o, "-")
			if _, err := os.Stat("/proc/" + o[i+1:]); os.IsNotExist(err) {
				os.RemoveAll(o)
			}
		}
	}
	qdir := filepath.Join(os.TempDir(), fmt.Sprintf("gverif-%s-%d", *prop, os.Getpid()))
	ts := time.Now()
	// call-site vacuity queries: the "reachable before the call" half is only needed (and only
	// solved) for call sites whose "reachable after the call" half comes back unsat
	var first, lazyPre []*Obligation
	for _, ob := range mine {
		if ob.Kind == "cover-call-pre" {
			ob.Result = "skipped"
			lazyPre = append(lazyPre, ob)
		} else {
			first = append(first, ob)
		}
	}
	solveAll(x.ctx, first, qdir, timeout, 6, *tier == "thorough")
	var needPre []*Obligation
	for _, ob := range first {
		if ob.Kind == "cover-call-post" && ob.Result == "unsat" {
			k := strings.Replace(ob.Name, "#cover-call-post:", "#cover-call-pre:", 1)
			for _, p := range lazyPre {
				if p.Name == k && p.Result == "skipped" {
					p.Result = ""
					needPre = append(needPre, p)
				}
			}
		}
	}
	// second chance: an obligation on which a solver ran out of time while the machine was busy with
	// the other queries is retried alone (one at a time, twice the limit) before it is
	// reported; at most 4 such retries per run (a change that breaks more than that is reported anyway)
	var retry []*Obligation
	for _, ob := range first {
		if !strings.HasPrefix(ob.Kind, "cover") && ob.Result != "unsat" && ob.Result != "sat" && ob.AnyTimeout && !ob.Trivial && len(retry) < 4 && os.Getenv("GVERIF_NORETRY") == "" {
			retry = append(retry, ob)
		}
	}
	for _, ob := range retry {
		ob.Retried = true
		ob.AnyTimeout = false
		solveAll(x.ctx, []*Obligation{ob}, filepath.Join(qdir, "retry"), timeout*2, 1, *tier == "thorough")
	}
	if len(needPre) > 0 {
		solveAll(x.ctx, needPre, filepath.Join(qdir, "pre"), timeout, 6, false)
	}
	solveS := time.Since(ts).Seconds()
	if !*keep {
		defer os.RemoveAll(qdir)
	}
	// group by obligation name
	type group struct {
		name   string
		obs    []*Obligation
		bad    []*Obligation
		qfiles []string
	}
	groups := map[string]*group{}
	var gnames []string
	coverSat := map[string]bool{}
	coverAll := map[string]bool{}
	var deadPaths []string
	// call-site vacuity: reachable before an assumed contract is applied, unreachable after
	callPre := map[string]string{}
	for _, ob := range mine {
		if ob.Kind == "cover-call-pre" {
			callPre[strings.Replace(ob.Name, "#cover-call-pre:", "#", 1)] = ob.Result
		}
	}
	var contradictory []string
	for _, ob := range mine {
		if ob.Kind == "cover-call-post" && ob.Result == "unsat" {
			k := strings.Replace(ob.Name, "#cover-call-post:", "#", 1)
			if pre := callPre[k]; pre == "sat" || pre == "unknown" || pre == "timeout" {
				contradictory = append(contradictory, ob.Fn+"#contract-consistent:"+ob.Desc)
			}
		}
	}
	for _, ob := range mine {
		if strings.HasPrefix(ob.Kind, "cover-call") {
			continue
		}
		if ob.Kind == "cover" {
			coverAll[ob.Fn] = true
			if ob.Result == "unsat" {
				deadPaths = append(deadPaths, ob.Fn+": return path never reached under the precondition ["+strings.Join(ob.Path, " ; ")+"]")
			}
			if ob.Result == "sat" || ob.Result == "unknown" || ob.Result == "timeout" {
				// unknown: quantified context, not refuted -- accepted as "not shown vacuous"
				coverSat[ob.Fn] = true
			}
			continue
		}
		g := groups[ob.Name]
		if g == nil {
			g = &group{name: ob.Name}
			groups[ob.Name] = g
			gnames = append(gnames, ob.Name)
		}
		g.obs = append(g.obs, ob)
		if ob.Result != "unsat" {
			g.bad = append(g.bad, ob)
			g.qfiles = append(g.qfiles, ob.File)
		}
	}
	sort.Strings(gnames)
	known := loadKnown(filepath.Join(*verif, "known_findings.txt"))
	discharged, total := 0, 0
	violations := 0
	knownMatched := []string{}
	var undecided []string
	// a function that is under an explicit contract for this property and cannot be decided
	// (contract no longer evaluates against the code, function left the supported subset) means the
	// property is NOT shown: reported as a violation without a failing input. Zero-annotation sweep
	// functions outside the subset are listed as uncovered instead.
	var undecidedContract []string
	for _, r := range reports {
		if r.Undecided != "" {
			if r.Mode == "contract" {
				undecidedContract = append(undecidedContract, r.Key+": "+r.Undecided)
			} else {
				undecided = append(undecided, r.Key+": "+r.Undecided)
			}
		}
	}
	var cfns []string
	for f := range coverAll {
		cfns = append(cfns, f)
	}
	sort.Strings(cfns)
	for _, f := range cfns {
		if !coverSat[f] {
			// nothing after the entry of the function is reachable: every obligation in it would be
			// discharged vacuously (contradictory precondition / invariant / assumed contract)
			undecidedContract = append(undecidedContract, f+": vacuous (no return is reachable under the precondition and the assumed invariants)")
		}
	}
	replayDir := filepath.Join(*verif, "replays", *prop)
	os.RemoveAll(replayDir)
	var solverTime float64
	bySolver := map[string]int{}
	for _, n := range gnames {
		g := groups[n]
		for _, ob := range g.obs {
			total++
			solverTime += ob.TimeS
			if ob.Result == "unsat" {
				discharged++
				bySolver[ob.Solver]++
			}
		}
		if len(g.bad) == 0 {
			continue
		}
		matched := false
		for _, k := range known {
			if k.Prop == *prop && k.Obligation == n {
				fmt.Printf("KNOWN-FINDING: property=%s %s %s\n", *prop, n, k.What)
				knownMatched = append(knownMatched, n)
				matched = true
				break
			}
		}
		if matched {
			continue
		}
		violations++
		os.MkdirAll(replayDir, 0o755)
		rf := filepath.Join(replayDir, mangle(n)+".txt")
		var sb strings.Builder
		b := g.bad[0]
		fmt.Fprintf(&sb, "failed obligation: %s\nproperty: %s\nfunction: %s\nkind: %s\nwhat: %s\nsolver result: %s (%s)\npath: %s\n", n, *prop, b.Fn, b.Kind, b.Desc, b.Result, b.Solver, strings.Join(b.Path, " ; "))
		fmt.Fprintf(&sb, "failing path instances: %d of %d\n", len(g.bad), len(g.obs))
		suffix := ""
		hasModel := false
		for _, ob := range g.bad {
			if ob.Result == "sat" && ob.Model != "" {
				hasModel = true
				fmt.Fprintf(&sb, "\n--- counterexample (solver model, entry values) ---\n%s\n", ob.Model)
				break
			}
		}
		for _, ob := range g.bad {
			if ob.Candidate && !hasModel {
				hasModel = true
			}
			if ob.Result != "sat" && ob.Model != "" {
				fmt.Fprintf(&sb, "\n--- solver output ---\n%s\n", ob.Model)
				break
			}
		}
		// a registered replay scenario is run even when the solver gave no model (quantified
		// obligations return unknown): the scenario is built from the failed clause itself
		replayed := tryReplay(*verif, *repo, *prop, n, g.bad, &sb)
		_ = hasModel
		if !replayed {
			suffix = " no-failing-input-found"
		}
		if len(g.qfiles) > 0 {
			if q, err := os.ReadFile(g.qfiles[0]); err == nil {
				qf := filepath.Join(replayDir, mangle(n)+".smt2")
				os.WriteFile(qf, q, 0o644)
				fmt.Fprintf(&sb, "\nSMT query: %s\n", qf)
			}
		}
		os.WriteFile(rf, []byte(sb.String()), 0o644)
		fmt.Printf("VIOLATION property=%s replay=%s obligation=%s result=%s%s\n", *prop, rf, n, b.Result, suffix)
	}
	sort.Strings(contradictory)
	for _, cname := range contradictory {
		violations++
		os.MkdirAll(replayDir, 0o755)
		rf := filepath.Join(replayDir, mangle(cname)+".txt")
		os.WriteFile(rf, []byte("failed obligation: "+cname+"\nproperty: "+*prop+"\nthe ASSUMED contract of the callee is contradictory at this call site: the path is reachable before the call and unreachable after it, so everything after the call would be proved vacuously.\n"), 0o644)
		fmt.Printf("VIOLATION property=%s replay=%s obligation=%s result=vacuous no-failing-input-found\n", *prop, rf, cname)
	}
	for _, u := range undecidedContract {
		violations++
		os.MkdirAll(replayDir, 0o755)
		fnKey := u
		if i := strings.Index(u, ": "); i > 0 {
			fnKey = u[:i]
		}
		rf := filepath.Join(replayDir, mangle(fnKey+"#contract-applies")+".txt")
		var sb strings.Builder
		sb.WriteString("failed obligation: " + fnKey + "#contract-applies\nproperty: " + *prop + "\nthe contract of this function could not be checked against the current code, so the property is not shown for it:\n" + u + "\n")
		suffix := " no-failing-input-found"
		if tryReplay(*verif, *repo, *prop, fnKey+"#contract-applies", nil, &sb) {
			suffix = ""
		}
		os.WriteFile(rf, []byte(sb.String()), 0o644)
		fmt.Printf("VIOLATION property=%s replay=%s obligation=%s#contract-applies result=undecided%s\n", *prop, rf, fnKey, suffix)
	}
	for _, u := range undecided {
		fmt.Printf("UNDECIDED property=%s reason=%s\n", *prop, u)
	}
	// bounded conformance of assumed contracts of repository functions (sampled on the real code)
	var boundedEv []map[string]interface{}
	for _, bc := range pc.Bounded {
		tb0 := time.Now()
		res, text := runBounded(*verif, *repo, bc)
		boundedEv = append(boundedEv, map[string]interface{}{"name": bc.Name, "what": bc.What, "bound": bc.Bound, "result": res,
			"time_s": time.Since(tb0).Seconds(), "label": "bounded: sampled on the real code, not counted as proved"})
		if res == "conforms" || res == "skipped" {
			continue
		}
		violations++
		rf := filepath.Join(replayDir, mangle(bc.Name)+".txt")
		os.MkdirAll(replayDir, 0o755)
		os.WriteFile(rf, []byte("failed obligation: "+bc.Name+"\nproperty: "+*prop+"\nkind: bounded conformance of an ASSUMED contract (the callers of this function are proved against that contract)\nwhat: "+bc.What+"\nbound: "+bc.Bound+"\nresult: "+res+"\n\n--- test on the real code ("+bc.File+", "+bc.Run+") ---\n"+text+"\n"), 0o644)
		suffix := ""
		if res != "violated" {
			suffix = " no-failing-input-found"
		}
		fmt.Printf("VIOLATION property=%s replay=%s obligation=%s result=%s%s\n", *prop, rf, bc.Name, res, suffix)
	}
	// evidence
	var fnKeys []string
	for _, r := range reports {
		fnKeys = append(fnKeys, fmt.Sprintf("%s [%s, %d obligations, %d paths]", r.Key, r.Mode, r.Obligations, r.Paths))
	}
	var tb []string
	for k, n := range x.trusted {
		tb = append(tb, fmt.Sprintf("%s (used %dx)", k, n))
	}
	sort.Strings(tb)
	var uv []string
	for k, n := range x.unverif {
		uv = append(uv, fmt.Sprintf("%s (%dx)", k, n))
	}
	sort.Strings(uv)
	var inl []string
	for k, n := range x.inlined {
		inl = append(inl, fmt.Sprintf("%s (%dx)", k, n))
	}
	sort.Strings(inl)
	var gaps []string
	seenGap := map[string]bool{}
	for _, g := range x.gaps {
		s := g.Fn + ": " + g.What
		if !seenGap[s] {
			seenGap[s] = true
			gaps = append(gaps, s)
		}
	}
	var samples []interface{}
	for i, n := range gnames {
		if i%(len(gnames)/6+1) == 0 {
			ob := groups[n].obs[0]
			samples = append(samples, map[string]interface{}{"obligation": n, "what": ob.Desc, "instances": len(groups[n].obs), "result": ob.Result, "solver": ob.Solver, "smt_bytes": ob.Size, "time_s": ob.TimeS})
		}
	}
	if len(samples) == 0 {
		samples = append(samples, "no obligations generated")
	}
	assumptions := []string{
		"VC generator (SSA encoding of /verif/engine) is trusted; defended by the must-fail corpus (selftest) only",
		"int/uint are 64-bit; fixed-width unsigned arithmetic wraps exactly; signed 64-bit arithmetic is mathematical with a no-overflow obligation (unless the contract says mathint)",
		"strings are an uninterpreted sort; only the catalogue facts about string functions are used",
		"pointer receivers of functions under verification are non-nil",
		"slice capacities and map sizes are at most 2^60",
		"no goroutines/channels/select are modelled; recover blocks are ignored (a panic is a failed obligation)",
		"interleavings are not explored: contracts are sequential; lock discipline obligations only",
	}
	assumptions = append(assumptions, pc.Undecided...)
	ev := map[string]interface{}{
		"property_id": *prop,
		"tier":        *tier,
		"seed":        seed,
		"level":       "proof",
		"coverage": map[string]interface{}{
			"obligations":              total,
			"discharged":               discharged,
			"checker_cmd":              fmt.Sprintf("/verif/bin/gverif check -prop %s -tier %s", *prop, *tier),
			"trusted_base":             tb,
			"functions_under_contract": fnKeys,
			"obligation_names":         len(gnames),
			"discharged_by_solver":     bySolver,
			"solver_time_s":            solverTime,
			"load_s":                   loadS,
			"vcgen_s":                  genS,
			"solve_wall_s":             solveS,
			"unverified_callees":       uv,
			"inlined_callees":          inl,
			"not_proved":               gaps,
			"undecided_functions":      undecided,
			"known_findings_matched":   knownMatched,
			"samples":                  samples,
			"contract_files":           db.Files,
			"timeout_s":                timeout,
			"cover_checks":             len(coverAll),
			"unreachable_return_paths": deadPaths,
			"cover_reachable":          len(coverSat),
			"bounded_checks":           boundedEv,
		},
		"assumptions": assumptions,
		"wall_s":      time.Since(t0).Seconds(),
		"violations":  violations,
	}
	if total == 0 {
		fmt.Printf("UNDECIDED property=%s reason=no obligations generated (vacuous run)\n", *prop)
	}
	if os.Getenv("GVERIF_COVERSTATS") != "" {
		cnt := map[string]int{}
		tm := map[string]float64{}
		for _, ob := range mine {
			if strings.HasPrefix(ob.Kind, "cover") {
				cnt[ob.Kind+"/"+ob.Result]++
				tm[ob.Kind+"/"+ob.Result] += ob.TimeS
			}
		}
		for k, n := range cnt {
			fmt.Fprintf(os.Stderr, "covers %s: %d (%.1fs)\n", k, n, tm[k])
		}
	}
	os.MkdirAll(filepath.Join(*verif, "evidence"), 0o755)
	out, _ := json.MarshalIndent(ev, "", " ")
	os.WriteFile(filepath.Join(*verif, "evidence", *prop+".json"), out, 0o644)
	fmt.Printf("property=%s functions=%d obligations=%d discharged=%d violations=%d known=%d undecided=%d load=%.1fs vcgen=%.1fs solve=%.1fs\n",
		*prop, len(reports), total, discharged, violations, len(knownMatched), len(undecided), loadS, genS, solveS)
	if *verbose {
		for _, n := range gnames {
			g := groups[n]
			st := "ok"
			if len(g.bad) > 0 {
				st = g.bad[0].Result
			}
			mx, sv := 0.0, ""
			for _, ob := range g.obs {
				if ob.TimeS > mx {
					mx, sv = ob.TimeS, ob.Solver
				}
			}
			fmt.Printf("  %-8s %s (%d) %.2fs %s\n", st, n, len(g.obs), mx, sv)
		}
		for _, g := range gaps {
			fmt.Println("  gap:", g)
		}
		deadBy := map[string]int{}
		for _, ob := range mine {
			if ob.Kind == "cover" && ob.Result == "unsat" {
				deadBy[ob.Fn]++
			}
		}
		for fn, n := range deadBy {
			fmt.Printf("  dead: %s: %d return paths never reached under the precondition (details in evidence)\n", fn, n)
		}
	}
	if violations > 0 {
		return 1
	}
	if total == 0 || missing > 0 {
		return 2
	}
	return 0
}

type replayEntry struct {
	Match string `json:"match"` // substring of the obligation name
	Pkg   string `json:"pkg"`   // package directory relative to the repository
	File  string `json:"file"`  // test file under /verif/replay
	Run   string `json:"run"`   // test name
	Race  bool   `json:"race"`  // run under the Go race detector; a DATA RACE report counts as reproduced
}

// tryReplay runs the hand-written replay test registered for the obligation against the real code,
// feeding it the solver's (candidate) counterexample. The test is injected with -overlay; nothing
// is written into the repository.
func tryReplay(verif, repo, prop, name string, bad []*Obligation, sb *strings.Builder) bool {
	data, err := os.ReadFile(filepath.Join(verif, "replay", "index.json"))
	if err != nil {
		return false
	}
	var idx []replayEntry
	if json.Unmarshal(data, &idx) != nil {
		return false
	}
	var ent *replayEntry
	for i := range idx {
		if strings.Contains(name, idx[i].Match) {
			ent = &idx[i]
			break
		}
	}
	if ent == nil {
		return false
	}
	ob := &Obligation{CEValues: map[string]string{}}
	for _, b := range bad {
		if b.CEValues != nil {
			ob = b
			break
		}
	}
	tmp, err := os.MkdirTemp("", "gverif-replay")
	if err != nil {
		return false
	}
	defer os.RemoveAll(tmp)
	ce, _ := json.MarshalIndent(map[string]interface{}{"obligation": name, "property": prop, "values": ob.CEValues}, "", " ")
	ceFile := filepath.Join(tmp, "ce.json")
	os.WriteFile(ceFile, ce, 0o644)
	target := filepath.Join(repo, ent.Pkg, "zz_verif_replay_test.go")
	ov, _ := json.Marshal(map[string]interface{}{"Replace": map[string]string{target: filepath.Join(verif, "replay", ent.File)}})
	ovFile := filepath.Join(tmp, "ov.json")
	os.WriteFile(ovFile, ov, 0o644)
	args := []string{"test", "-overlay", ovFile, "-vet=off", "-count=1", "-timeout", "120s", "-run", "^" + ent.Run + "$", "-v"}
	if ent.Race {
		args = append(args, "-race")
	}
	args = append(args, "./"+ent.Pkg)
	cmd := exec.Command("go", args...)
	cmd.Dir = repo
	cmd.Env = append(os.Environ(), "GOFLAGS=-mod=mod", "GOPROXY=off", "GOSUMDB=off", "GOTOOLCHAIN=local", "VERIF_CE="+ceFile)
	out, _ := cmd.CombinedOutput()
	text := string(out)
	if len(text) > 4000 {
		text = text[:4000] + "\n..."
	}
	fmt.Fprintf(sb, "\n--- replay on the real code (%s, %s) ---\ncounterexample values: %s\n%s\n", ent.File, ent.Run, string(ce), text)
	for _, l := range strings.Split(text, "\n") {
		if strings.HasPrefix(strings.TrimSpace(l), "REPRODUCED:") {
			return true
		}
		if ent.Race && strings.HasPrefix(strings.TrimSpace(l), "WARNING: DATA RACE") {
			return true
		}
	}
	return false
}

// runBounded runs a sampled conformance test of an assumed contract on the real code (overlay test).
// Result: "conforms" (a line CONFORMS: and the test passes), "violated" (a line VIOLATED: naming the
// failing sample), otherwise "not-run" (build failure or no verdict).
func runBounded(verif, repo string, bc BoundedCheck) (string, string) {
	tmp, err := os.MkdirTemp("", "gverif-bounded")
	if err != nil {
		return "not-run", err.Error()
	}
	defer os.RemoveAll(tmp)
	target := filepath.Join(repo, bc.Pkg, "zz_verif_bounded_test.go")
	ov, _ := json.Marshal(map[string]interface{}{"Replace": map[string]string{target: filepath.Join(verif, "replay", bc.File)}})
	ovFile := filepath.Join(tmp, "ov.json")
	os.WriteFile(ovFile, ov, 0o644)
	cmd := exec.Command("go", "test", "-overlay", ovFile, "-vet=off", "-count=1", "-timeout", "120s", "-run", "^"+bc.Run+"$", "-v", "./"+bc.Pkg)
	cmd.Dir = repo
	cmd.Env = append(os.Environ(), "GOFLAGS=-mod=mod", "GOPROXY=off", "GOSUMDB=off", "GOTOOLCHAIN=local")
	out, runErr := cmd.CombinedOutput()
	text := string(out)
	if len(text) > 6000 {
		text = text[:6000] + "\n..."
	}
	conforms := false
	for _, l := range strings.Split(text, "\n") {
		t := strings.TrimSpace(l)
		if strings.HasPrefix(t, "VIOLATED:") {
			return "violated", text
		}
		if strings.HasPrefix(t, "CONFORMS:") {
			conforms = true
		}
	}
	if conforms && runErr == nil {
		return "conforms", text
	}
	if runErr == nil && strings.Contains(text, "--- SKIP") {
		return "skipped", text // the environment does not allow the sample (recorded in the evidence, nothing is claimed)
	}
	return "not-run", text
}

// matchOnly: substring match; a trailing '$' anchors at the end of the key.
func matchOnly(key, pat string) bool {
	if strings.HasSuffix(pat, "$") {
		return strings.HasSuffix(key, strings.TrimSuffix(pat, "$"))
	}
	return strings.Contains(key, pat)
}
