package galaxy

// Bounded conformance test of the verification framework (/verif), injected with `go test -overlay`.
// The clause "the networks selected by the pod's networks annotation, in that order, the i-th on the
// interface its entry names or eth<i>" cannot be stated as a postcondition of resolveNetworks: the
// parser's result is not a spec function of the annotation text and fmt.Sprintf is uninterpreted. This
// test samples that clause on the real functions. It is a bounded stand-in, not a proof.

import (
	"fmt"
	"strings"
	"testing"

	"github.com/containernetworking/cni/pkg/skel"
	corev1 "k8s.io/api/core/v1"
	"k8s.io/apimachinery/pkg/api/resource"
	metav1 "k8s.io/apimachinery/pkg/apis/meta/v1"
	galaxyapi "tkestack.io/galaxy/pkg/api/galaxy"
	"tkestack.io/galaxy/pkg/galaxy/options"
)

func TestVerifBoundedAnnotationSelection(t *testing.T) {
	bad := func(format string, a ...interface{}) {
		fmt.Printf("VIOLATED: "+format+"\n", a...)
		t.FailNow()
	}
	names := []string{"na", "nb", "nc", "eni"}
	type sel struct{ name, ifName string }
	var cases [][]sel
	for n := 1; n <= 3; n++ {
		for mask := 0; mask < 1<<uint(n); mask++ {
			var c []sel
			for i := 0; i < n; i++ {
				s := sel{name: names[(i+mask)%3]}
				if mask&(1<<uint(i)) != 0 {
					s.ifName = fmt.Sprintf("net%d", i)
				}
				c = append(c, s)
			}
			cases = append(cases, c)
		}
	}
	samples := 0
	for _, c := range cases {
		for _, form := range []string{"comma", "json"} {
			var parts []string
			for _, s := range c {
				if form == "comma" {
					p := s.name
					if s.ifName != "" {
						p += "@" + s.ifName
					}
					parts = append(parts, p)
				} else {
					p := `{"name":"` + s.name + `"`
					if s.ifName != "" {
						p += `,"interface":"` + s.ifName + `"`
					}
					parts = append(parts, p+"}")
				}
			}
			anno := strings.Join(parts, ",")
			if form == "json" {
				anno = "[" + anno + "]"
			}
			for _, eniConfigured := range []bool{false, true} {
				for _, wantsENI := range []bool{false, true} {
					g := &Galaxy{ServerRunOptions: options.NewServerRunOptions(), netConf: map[string]map[string]interface{}{}}
					for _, n := range names {
						g.netConf[n] = map[string]interface{}{"type": "t-" + n, "name": n}
					}
					g.DefaultNetworks = []string{"nc", "na"}
					if eniConfigured {
						g.ENIIPNetwork = "eni"
					}
					pod := &corev1.Pod{ObjectMeta: metav1.ObjectMeta{Name: "p", Namespace: "ns",
						Annotations: map[string]string{"k8s.v1.cni.cncf.io/networks": anno}}}
					ctr := corev1.Container{Name: "c"}
					if wantsENI {
						ctr.Resources.Requests = corev1.ResourceList{"tke.cloud.tencent.com/eni-ip": resource.MustParse("1")}
					}
					pod.Spec.Containers = []corev1.Container{ctr}
					req := &galaxyapi.PodRequest{PodName: "p", PodNamespace: "ns", CmdArgs: &skel.CmdArgs{ContainerID: "x", IfName: "eth0"}}
					infos, err := g.resolveNetworks(req, pod)
					desc := fmt.Sprintf("annotation %q (ENI network configured: %v, pod requests an ENI IP: %v)", anno, eniConfigured, wantsENI)
					if err != nil {
						bad("%s: resolveNetworks failed: %v", desc, err)
					}
					if len(infos) != len(c) {
						bad("%s: %d networks resolved, the annotation selects %d", desc, len(infos), len(c))
					}
					for i, s := range c {
						wantIf := s.ifName
						if i == 0 {
							wantIf = "eth0"
						} else if wantIf == "" {
							wantIf = fmt.Sprintf("eth%d", i)
						}
						if infos[i] == nil || infos[i].NetworkType != s.name || infos[i].IfName != wantIf || infos[i].Conf["name"] != s.name {
							bad("%s: entry %d is %+v, want network %s on interface %s with the configuration of %s", desc, i, infos[i], s.name, wantIf, s.name)
						}
					}
					samples++
				}
			}
		}
	}
	fmt.Printf("CONFORMS: resolveNetworks follows the networks annotation (order, interfaces, configuration) on %d sampled pods\n", samples)
}
