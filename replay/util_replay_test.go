package util

// Replay tests of the verification framework (/verif), injected with `go test -overlay`.

import (
	"fmt"
	"testing"
)

// lemma listedTypeRebuildsNoRefPrefix: the app type the list API shows for a stored key prefix must
// rebuild that prefix when it is posted back to the release API. Replay: the prefix of pods without
// an owner reference.
func TestVerifReplayNoRefTypeRoundTrip(t *testing.T) {
	shown := GetAppType(NoRefAppTypePrefix)
	rebuilt := GetAppTypePrefix(shown)
	if rebuilt != NoRefAppTypePrefix {
		fmt.Printf("REPRODUCED: stored prefix %q is listed as app type %q, which the release API turns into %q: the key of a pod without owner cannot be rebuilt from its own listing\n",
			NoRefAppTypePrefix, shown, rebuilt)
		t.FailNow()
	}
	fmt.Println("NOT-REPRODUCED: prefix round trip holds for", NoRefAppTypePrefix)
}
