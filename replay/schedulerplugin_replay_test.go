package schedulerplugin

// Replay tests of the verification framework (/verif). Injected with `go test -overlay`; never
// written into the repository. They run the REAL functions on a concrete scenario built from the
// failed obligation (and, where the solver gave one, its counterexample values) and print
// "REPRODUCED: ..." (and fail) if the violated contract clause is observed on the real code.

import (
	"fmt"
	"net"
	"testing"

	"k8s.io/apimachinery/pkg/types"
	. "tkestack.io/galaxy/pkg/ipam/cloudprovider/testing"
	"tkestack.io/galaxy/pkg/ipam/floatingip"
	. "tkestack.io/galaxy/pkg/ipam/schedulerplugin/testing"
	schedulerplugin_util "tkestack.io/galaxy/pkg/ipam/schedulerplugin/util"
)

// unbind#post:unbind-spares-other-incarnation: a (late) delete/finish event of an EARLIER
// incarnation of a pod name must not touch the IP that is stored with the uid of the live,
// re-created pod. Scenario: new incarnation (uid-new) bound; then unbind(old pod object, uid-old).
func TestVerifReplayUnbindOtherIncarnation(t *testing.T) {
	oldPod := CreateStatefulSetPod("sts-xxx-0", "ns1", map[string]string{})
	oldPod.UID = types.UID("uid-old")
	newPod := CreateStatefulSetPod("sts-xxx-0", "ns1", map[string]string{})
	newPod.UID = types.UID("uid-new")
	keyObj, _ := schedulerplugin_util.FormatKey(newPod)
	fipPlugin, stopChan, _ := createPluginTestNodes(t, newPod)
	defer func() { stopChan <- struct{}{} }()
	fakeCP := NewFakeCloudProvider()
	fipPlugin.cloudProvider = fakeCP
	// the live incarnation is bound and owns an IP stored with ITS uid
	fipInfo, err := checkBind(fipPlugin, newPod, node3, keyObj.KeyInDB, node3Subnet)
	if err != nil {
		t.Fatal(err)
	}
	ip := fipInfo.IPInfo.IP.IP.String()
	before, _ := fipPlugin.ipam.ByIP(net.ParseIP(ip))
	if before.Key != keyObj.KeyInDB || before.PodUid != "uid-new" {
		t.Fatalf("setup: ip %s key %q uid %q", ip, before.Key, before.PodUid)
	}
	// the delete event of the earlier incarnation (same name, other uid) is handled afterwards
	if err := fipPlugin.unbind(oldPod); err != nil {
		fmt.Println("NOT-REPRODUCED: unbind of the old incarnation returned an error:", err)
		return
	}
	after, _ := fipPlugin.ipam.ByIP(net.ParseIP(ip))
	_, unassigned := fakeCP.UnAssigned[ip]
	if after.Key != before.Key || after.PodUid != before.PodUid || unassigned {
		fmt.Printf("REPRODUCED: event of incarnation uid-old changed ip %s of the live pod (uid-new): key %q -> %q, uid %q -> %q, unassigned at provider: %v\n",
			ip, before.Key, after.Key, before.PodUid, after.PodUid, unassigned)
		t.FailNow()
	}
	fmt.Println("NOT-REPRODUCED: the live pod's ip was left alone")
	_ = floatingip.Attr{}
}

// getSubnet#post:held-ips-routable-from-offered-subnets (and #inv-step:L0): every node subnet that
// filter offers must be able to reach EVERY IP the pod already holds in its requested ranges.
// Scenario: the pod holds one IP in each of two pools with different node subnets and requests a
// third range that is still free.
func TestVerifReplayGetSubnetHeldIPs(t *testing.T) {
	pod := CreateStatefulSetPod("pod1-0", "ns1",
		cniArgsAnnotation(`{"request_ip_range":[["10.49.27.205"],["10.173.13.2"],["10.49.27.216"]]}`))
	keyObj, _ := schedulerplugin_util.FormatKey(pod)
	fipPlugin, stopChan, _ := createPluginTestNodes(t, pod)
	defer func() { stopChan <- struct{}{} }()
	for _, ip := range []string{"10.49.27.205", "10.173.13.2"} {
		if err := fipPlugin.ipam.AllocateSpecificIP(keyObj.KeyInDB, net.ParseIP(ip), floatingip.Attr{}); err != nil {
			t.Fatalf("setup: %v", err)
		}
	}
	cniArgs, err := getPodCniArgs(pod)
	if err != nil {
		t.Fatal(err)
	}
	held, err := fipPlugin.ipam.ByKeyAndIPRanges(keyObj.KeyInDB, cniArgs.RequestIPRange)
	if err != nil {
		t.Fatal(err)
	}
	subnets, err := fipPlugin.getSubnet(pod)
	if err != nil {
		fmt.Println("NOT-REPRODUCED: getSubnet returned an error:", err)
		return
	}
	for _, s := range subnets.List() {
		for i, info := range held {
			if info != nil && !info.NodeSubnets.Has(s) {
				fmt.Printf("REPRODUCED: node subnet %s is offered to pod %s, but the ip %s it already holds for range list %d is only routable from %v\n",
					s, keyObj.KeyInDB, info.IPInfo.IP.IP.String(), i, info.NodeSubnets.List())
				t.FailNow()
			}
		}
	}
	fmt.Println("NOT-REPRODUCED: offered subnets", subnets.List(), "reach every held ip")
}

// ensureIPAMConf#pre:ConfigurePool#0:1: a configuration text whose pool list contains null must be
// rejected with an error, not crash the daemon.
func TestVerifReplayNullPoolInConfig(t *testing.T) {
	fipPlugin, stopChan, _ := createPluginTestNodes(t)
	defer func() { stopChan <- struct{}{} }()
	defer func() {
		if r := recover(); r != nil {
			fmt.Printf("REPRODUCED: ensureIPAMConf panics on the configuration text [null]: %v\n", r)
			t.FailNow()
		}
	}()
	last := ""
	_, err := fipPlugin.ensureIPAMConf(&last, `[null]`)
	fmt.Println("NOT-REPRODUCED: ensureIPAMConf returned", err)
}
