package policy

// Replay tests of the verification framework (/verif), injected with `go test -overlay`.

import (
	"fmt"
	"testing"

	corev1 "k8s.io/api/core/v1"
	networkv1 "k8s.io/api/networking/v1"
	metav1 "k8s.io/apimachinery/pkg/apis/meta/v1"
	"k8s.io/client-go/informers"
	"k8s.io/client-go/kubernetes/fake"
	ipsetTest "tkestack.io/galaxy/pkg/utils/ipset/testing"
	iptablesTest "tkestack.io/galaxy/pkg/utils/iptables/testing"
)

// syncIngressInIPSet#safe:nil:srcRules / syncEgressInIPSet#safe:nil:dstRules — the compiled policy has
// no ingress (egress) half when policyTypes excludes it, but the sync of a pod event walks the rules
// of the spec. Replay: a valid NetworkPolicy with policyTypes [Egress] that still carries an ingress
// rule (the API accepts and ignores it), compiled by the real policyResult, then a pod event.
func TestVerifReplayPodEventOnOneSidedPolicy(t *testing.T) {
	for _, side := range []string{"Egress", "Ingress"} {
		client := fake.NewSimpleClientset()
		factory := informers.NewSharedInformerFactory(client, 0)
		p := &PolicyManager{ipsetHandle: ipsetTest.NewFake(""), iptableHandle: iptablesTest.NewFakeIPTables(), hostName: "h",
			quitChan: make(chan struct{}), podLister: factory.Core().V1().Pods().Lister(), namespaceLister: factory.Core().V1().Namespaces().Lister()}
		peer := []networkv1.NetworkPolicyPeer{{PodSelector: &metav1.LabelSelector{MatchLabels: map[string]string{"app": "x"}}}}
		np := &networkv1.NetworkPolicy{ObjectMeta: metav1.ObjectMeta{Name: "np", Namespace: "ns"},
			Spec: networkv1.NetworkPolicySpec{
				PodSelector: metav1.LabelSelector{MatchLabels: map[string]string{"app": "y"}},
				PolicyTypes: []networkv1.PolicyType{networkv1.PolicyType(side)},
				Ingress:     []networkv1.NetworkPolicyIngressRule{{From: peer}},
				Egress:      []networkv1.NetworkPolicyEgressRule{{To: peer}},
			}}
		in, eg, err := p.policyResult(np)
		if err != nil {
			t.Fatalf("policyResult: %v", err)
		}
		p.policies = []policy{{ingressRule: in, egressRule: eg, np: np}}
		pod := &corev1.Pod{ObjectMeta: metav1.ObjectMeta{Name: "p", Namespace: "ns", Labels: map[string]string{"app": "x"}},
			Status: corev1.PodStatus{PodIP: "10.0.0.9"}}
		panicked := func() (r interface{}) {
			defer func() { r = recover() }()
			p.SyncPodIPInIPSet(pod, true)
			return nil
		}()
		if panicked != nil {
			fmt.Printf("REPRODUCED: a pod event with the valid NetworkPolicy policyTypes=[%s] (ingress and egress rules present in the spec) installed panics in SyncPodIPInIPSet: %v (compiled halves: ingress=%v egress=%v)\n",
				side, panicked, in != nil, eg != nil)
			t.FailNow()
		}
	}
	fmt.Println("NOT-REPRODUCED: pod events with one-sided policies are handled")
}
