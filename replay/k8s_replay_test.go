package k8s

// Replay tests of the verification framework (/verif), injected with `go test -overlay`.

import (
	"fmt"
	"testing"
)

// ParsePodNetworkAnnotation#post:selected-networks-are-objects — the daemon dereferences every selected
// network while serving a CNI ADD (pkg/galaxy resolveNetworks: network.Name). Replay: the JSON form of
// the networks annotation with a null entry.
func TestVerifReplayNetworksAnnotationNullEntry(t *testing.T) {
	for _, anno := range []string{`[null]`, `[{"name":"a"},null]`} {
		networks, err := ParsePodNetworkAnnotation(anno)
		if err != nil {
			continue
		}
		for i, n := range networks {
			if n == nil {
				fmt.Printf("REPRODUCED: ParsePodNetworkAnnotation(%q) returns no error and a nil network at index %d: the galaxy daemon panics with a nil pointer dereference in resolveNetworks when a pod carries this annotation\n", anno, i)
				t.FailNow()
			}
		}
	}
	fmt.Println("NOT-REPRODUCED: null entries of the networks annotation are rejected")
}
