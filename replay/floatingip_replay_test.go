package floatingip

// Replay tests of the verification framework (/verif). Injected with `go test -overlay`; never
// written into the repository. Each test reads the solver's (candidate) counterexample from the
// JSON file named by VERIF_CE, builds a concrete input from it, runs the REAL function and prints
// "REPRODUCED: ..." (and fails) if the violated contract clause is observed on the real code.

import (
	"encoding/json"
	"fmt"
	"net"
	"os"
	"strconv"
	"testing"
	"time"

	ipamutils "tkestack.io/galaxy/pkg/ipam/utils"
	"tkestack.io/galaxy/pkg/utils/nets"
)

type verifCE struct {
	Obligation string            `json:"obligation"`
	Values     map[string]string `json:"values"`
}

func loadVerifCE(t *testing.T) verifCE {
	var ce verifCE
	data, err := os.ReadFile(os.Getenv("VERIF_CE"))
	if err != nil {
		t.Skipf("no counterexample file: %v", err)
	}
	if err := json.Unmarshal(data, &ce); err != nil {
		t.Fatal(err)
	}
	return ce
}

func (c verifCE) int(label string, def int64) int64 {
	if v, ok := c.Values[label]; ok {
		if n, err := strconv.ParseInt(v, 10, 64); err == nil {
			return n
		}
	}
	return def
}

// ipOf reads a net.IP described as label.len / label[i] from the counterexample.
func (c verifCE) ipOf(label string) (net.IP, bool) {
	n := c.int(label+".len", -1)
	if n != 4 && n != 16 {
		return nil, false
	}
	ip := make(net.IP, n)
	for i := int64(0); i < n; i++ {
		ip[i] = byte(c.int(fmt.Sprintf("%s[%d]", label, i), 0))
	}
	return ip, true
}

// walkIPRanges#decreases: the loop over one range must end. Replay: a range ending at the
// `last` value of the model; count callback invocations with a watchdog.
func TestVerifReplayWalkTermination(t *testing.T) {
	ce := loadVerifCE(t)
	last := uint32(ce.int("local.last", 4294967295))
	first := last - 1
	if last == 0 {
		first = 0
	}
	ranges := []nets.IPRange{{First: nets.IntToIP(first), Last: nets.IntToIP(last)}}
	want := int(last-first) + 1
	calls := 0
	done := make(chan struct{})
	go func() {
		walkIPRanges(ranges, func(ip net.IP) bool {
			calls++
			return calls > want+1000 // watchdog: a correct walk never gets here
		})
		close(done)
	}()
	select {
	case <-done:
	case <-time.After(20 * time.Second):
		fmt.Printf("REPRODUCED: walkIPRanges did not return within 20s for range %v~%v\n", ranges[0].First, ranges[0].Last)
		t.FailNow()
	}
	if calls > want {
		fmt.Printf("REPRODUCED: walkIPRanges over %v~%v (%d addresses) called the visitor %d times: the uint32 loop variable wrapped, the walk does not terminate on its own\n",
			ranges[0].First, ranges[0].Last, want, calls)
		t.FailNow()
	}
	fmt.Println("NOT-REPRODUCED: walk terminated after", calls, "calls")
}

// fipCheck#inv-step (sorted, disjoint, not mergeable over the integers): take the two adjacent
// ranges of the model, put them into a 0.0.0.0/0 pool and run the real check.
func TestVerifReplayFipCheckOrder(t *testing.T) {
	ce := loadVerifCE(t)
	var rs []nets.IPRange
	for i := 0; i < 3; i++ {
		f, ok1 := ce.ipOf(fmt.Sprintf("fip.SparseSubnet.IPRanges[%d].First", i))
		l, ok2 := ce.ipOf(fmt.Sprintf("fip.SparseSubnet.IPRanges[%d].Last", i))
		if !ok1 || !ok2 {
			break
		}
		rs = append(rs, nets.IPRange{First: f, Last: l})
	}
	if len(rs) < 2 {
		// the model did not pin the list down: use the boundary the failed clause is about
		rs = []nets.IPRange{
			{First: nets.IntToIP(4294967000), Last: nets.IntToIP(4294967295)},
			{First: nets.IntToIP(4294966000), Last: nets.IntToIP(4294966010)},
		}
	}
	pool := &FloatingIPPool{}
	pool.IPRanges = rs
	pool.Gateway = net.IPv4(0, 0, 0, 1)
	pool.Mask = net.CIDRMask(0, 32)
	err := fipCheck(pool)
	if err != nil {
		fmt.Println("NOT-REPRODUCED: rejected:", err)
		return
	}
	for i := 1; i < len(rs); i++ {
		if int64(nets.IPToInt(rs[i].First)) <= int64(nets.IPToInt(rs[i-1].Last))+1 {
			fmt.Printf("REPRODUCED: fipCheck accepted ranges %v then %v: not sorted/disjoint/unmergeable over the integers (uint32 wrap in the +1)\n", rs[i-1], rs[i])
			t.FailNow()
		}
	}
	fmt.Println("NOT-REPRODUCED: accepted list is well-formed")
}

// (*FloatingIPPool).UnmarshalJSON#safe:nil: a configuration text with a null entry in
// nodeSubnets must be rejected with an error, not crash the daemon.
func TestVerifReplayPoolNullNodeSubnet(t *testing.T) {
	defer func() {
		if r := recover(); r != nil {
			fmt.Printf("REPRODUCED: decoding a pool configuration with \"nodeSubnets\":[null] panics: %v\n", r)
			t.FailNow()
		}
	}()
	var pool FloatingIPPool
	err := json.Unmarshal([]byte(`{"nodeSubnets":[null],"ips":["10.0.0.2"],"subnet":"10.0.0.0/24","gateway":"10.0.0.1"}`), &pool)
	fmt.Println("NOT-REPRODUCED: decoder returned", err)
}

// (*crdIpam).NodeSubnetsByIPRanges#inv-step:L1 / #post:offered-subnet-serves-every-range: every
// offered node subnet must be able to serve EVERY requested range list. Replay: three range lists
// whose first two have no common subnet; the third must not resurrect the first one's subnets.
func TestVerifReplayNodeSubnetsIntersection(t *testing.T) {
	ipam := createTestCrdIPAM(t)
	var ipranges [][]nets.IPRange
	if err := json.Unmarshal([]byte(`[["10.49.27.216"],["10.173.13.10~10.173.13.13"],["10.49.27.216"]]`), &ipranges); err != nil {
		t.Fatal(err)
	}
	subnets, err := ipam.NodeSubnetsByIPRanges(ipranges)
	if err != nil {
		t.Fatal(err)
	}
	for _, s := range subnets.List() {
		for i, ranges := range ipranges {
			served := false
			for ipStr, fip := range ipam.unallocatedFIPs {
				ip := net.ParseIP(ipStr)
				in := false
				for _, r := range ranges {
					if r.Contains(ip) {
						in = true
					}
				}
				if in && fip.pool.nodeSubnets.Has(s) {
					served = true
				}
			}
			if !served {
				fmt.Printf("REPRODUCED: node subnet %s is offered for ranges %v but no free ip of range list %d (%v) is reachable from it\n", s, ipranges, i, ranges)
				t.FailNow()
			}
		}
	}
	fmt.Println("NOT-REPRODUCED: offered subnets", subnets.List(), "serve every range list")
}

// (*crdIpam).ConfigurePool#lock:crdIpam.*: the tables and the pool list must only be read with
// cacheLock held. Replay (run under the race detector): a reload runs concurrently with
// allocations and releases; the detector reports the unsynchronised reads of the deferred log.
func TestVerifReplayConfigurePoolLogRace(t *testing.T) {
	ipam := createTestCrdIPAM(t)
	done := make(chan struct{})
	go func() {
		defer close(done)
		for i := 0; i < 200; i++ {
			// a fresh configuration object per reload, as ensureIPAMConf does
			var cfg struct {
				Floatingips []*FloatingIPPool `json:"floatingips"`
			}
			if err := json.Unmarshal([]byte(ipamutils.TestConfig), &cfg); err != nil {
				t.Error(err)
				return
			}
			if err := ipam.ConfigurePool(cfg.Floatingips); err != nil {
				t.Error(err)
				return
			}
		}
	}()
	_, subnet, _ := net.ParseCIDR("10.49.27.0/24")
	for i := 0; i < 200; i++ {
		key := fmt.Sprintf("dp_ns1_dp_pod-%d", i)
		if ip, err := ipam.AllocateInSubnet(key, subnet, Attr{}); err == nil {
			_ = ipam.Release(key, ip)
		}
	}
	<-done
	fmt.Println("NOT-REPRODUCED (unless the race detector printed a DATA RACE report above)")
}
