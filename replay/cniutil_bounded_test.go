package cniutil

// Bounded conformance test of the verification framework (/verif), injected with `go test -overlay`:
// the callers of saveNetworkInfo/consumeNetworkInfo (CmdAdd, CmdDel) are proved against ASSUMED
// contracts of these two helpers (file I/O and a JSON round trip are outside the verifier's reach).
// This test samples those contracts on the real functions. It is a bounded stand-in, not a proof.

import (
	"fmt"
	"os"
	"path/filepath"
	"testing"
)

func TestVerifBoundedStateFileContracts(t *testing.T) {
	bad := func(format string, a ...interface{}) {
		fmt.Printf("VIOLATED: "+format+"\n", a...)
		t.FailNow()
	}
	samples := 0
	for n := 0; n <= 4; n++ {
		cid := fmt.Sprintf("verif-bounded-%d-%d", os.Getpid(), n)
		other := cid + "-other"
		path := filepath.Join(stateDir, cid)
		// consume without state: an error that os.IsNotExist recognises (CmdDel's repeated-DEL test)
		infos, err := consumeNetworkInfo(cid)
		if err == nil || !os.IsNotExist(err) {
			bad("consumeNetworkInfo(%q) without a state file returned (%v, %v): the assumed contract promises an error recognised by os.IsNotExist (a repeated DEL must be a no-op)", cid, infos, err)
		}
		var in []*NetworkInfo
		for i := 0; i < n; i++ {
			in = append(in, &NetworkInfo{NetworkType: fmt.Sprintf("t%d", i), Args: map[string]string{"k": fmt.Sprint(i)},
				Conf: map[string]interface{}{"type": fmt.Sprintf("t%d", i)}, IfName: fmt.Sprintf("eth%d", i)})
		}
		if err := saveNetworkInfo(other, in[:n/2]); err != nil {
			t.Skipf("state dir not writable: %v", err)
		}
		if err := saveNetworkInfo(cid, in); err != nil {
			t.Skipf("state dir not writable: %v", err)
		}
		if _, err := os.Stat(path); err != nil {
			bad("saveNetworkInfo(%q) succeeded but there is no state file %s: %v", cid, path, err)
		}
		out, err := consumeNetworkInfo(cid)
		if err != nil {
			bad("consumeNetworkInfo(%q) after a successful save of %d networks failed: %v", cid, n, err)
		}
		if len(out) != n {
			bad("consumeNetworkInfo(%q) returned %d networks, %d were saved", cid, len(out), n)
		}
		for i := range out {
			if out[i] == nil || out[i].IfName != in[i].IfName || out[i].NetworkType != in[i].NetworkType || out[i].Conf["type"] != in[i].Conf["type"] {
				bad("consumeNetworkInfo(%q): entry %d is %+v, saved %+v (order, interface and configuration must survive the round trip)", cid, i, out[i], in[i])
			}
		}
		if _, err := os.Stat(path); !os.IsNotExist(err) {
			bad("consumeNetworkInfo(%q) left the state file in place (stat: %v): a consumed state must be gone", cid, err)
		}
		// the other container's state is untouched by save/consume of this one
		o, err := consumeNetworkInfo(other)
		if err != nil || len(o) != n/2 {
			bad("state of container %q changed by operations on %q: (%d networks, %v), want %d", other, cid, len(o), err, n/2)
		}
		// second consume: state is gone again
		if _, err := consumeNetworkInfo(cid); err == nil || !os.IsNotExist(err) {
			bad("second consumeNetworkInfo(%q) returned %v: want an os.IsNotExist error", cid, err)
		}
		samples++
	}
	fmt.Printf("CONFORMS: saveNetworkInfo/consumeNetworkInfo satisfy their assumed contracts on %d sampled container states (0..4 networks)\n", samples)
}
