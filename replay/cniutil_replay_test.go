package cniutil

// Replay tests of the verification framework (/verif), injected with `go test -overlay`.

import (
	"fmt"
	"io/ioutil"
	"os"
	"path/filepath"
	"strings"
	"testing"

	"github.com/containernetworking/cni/pkg/skel"
)

// CmdAdd#frame:M?$Str$Iface — a request must leave every configuration map that existed before it
// unchanged (the maps are the daemon's static network configurations). Replay: a two-network ADD with
// a recording fake plugin, then a single-network ADD of another container on the second network: what
// its plugin receives must not depend on the earlier request.
func TestVerifReplayCmdAddKeepsStaticConf(t *testing.T) {
	dir, err := ioutil.TempDir("", "verif-c12")
	if err != nil {
		t.Fatal(err)
	}
	defer os.RemoveAll(dir)
	script := "#!/bin/sh\ncat > \"" + dir + "/stdin.$CNI_COMMAND.$CNI_CONTAINERID.$CNI_IFNAME\"\n" +
		"if [ \"$CNI_COMMAND\" = ADD ]; then echo '{\"cniVersion\":\"0.2.0\",\"ip4\":{\"ip\":\"10.9.8.7/24\"}}'; fi\n"
	if err := ioutil.WriteFile(filepath.Join(dir, "verifplug"), []byte(script), 0755); err != nil {
		t.Fatal(err)
	}
	confA := map[string]interface{}{"type": "verifplug", "name": "a"}
	confB := map[string]interface{}{"type": "verifplug", "name": "b"}
	c1 := fmt.Sprintf("verif-replay-c12-%d-1", os.Getpid())
	c2 := fmt.Sprintf("verif-replay-c12-%d-2", os.Getpid())
	args1 := &skel.CmdArgs{ContainerID: c1, Netns: "/proc/self/ns/net", IfName: "eth0", Path: dir}
	if _, err := CmdAdd(args1, []*NetworkInfo{NewNetworkInfo("a", confA, "eth0"), NewNetworkInfo("b", confB, "eth1")}); err != nil {
		t.Fatalf("first ADD: %v", err)
	}
	defer CmdDel(&skel.CmdArgs{ContainerID: c1, Netns: "/proc/self/ns/net", IfName: "eth0", Path: dir}, -1) // nolint: errcheck
	_, mutated := confB["prevResult"]
	// a later pod with the single network b
	args2 := &skel.CmdArgs{ContainerID: c2, Netns: "/proc/self/ns/net", IfName: "eth0", Path: dir}
	if _, err := CmdAdd(args2, []*NetworkInfo{NewNetworkInfo("b", confB, "eth0")}); err != nil {
		t.Fatalf("second ADD: %v", err)
	}
	defer CmdDel(&skel.CmdArgs{ContainerID: c2, Netns: "/proc/self/ns/net", IfName: "eth0", Path: dir}, -1) // nolint: errcheck
	stdin, err := ioutil.ReadFile(filepath.Join(dir, "stdin.ADD."+c2+".eth0"))
	if err != nil {
		t.Fatal(err)
	}
	if mutated || strings.Contains(string(stdin), "prevResult") {
		fmt.Printf("REPRODUCED: the ADD of container %s stored its first plugin's result in the shared configuration map of network b (prevResult present: %v); the plugin of the later single-network container %s received %s\n",
			c1, mutated, c2, string(stdin))
		t.FailNow()
	}
	fmt.Println("NOT-REPRODUCED: configuration maps unchanged by ADD; second container's plugin received", string(stdin))
}
