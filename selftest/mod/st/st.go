// Package st is the must-fail / must-pass corpus of the verification engine in /verif/engine.
// Functions named Ok* must verify completely against their contract (zz_contracts_verif.go);
// functions named Bad* carry a contract that their body does NOT satisfy: at least one obligation
// must fail. A Bad* function that verifies is a soundness hole of the engine; an Ok* function that
// fails is a false alarm.
package st

type Box struct {
	N    int
	M    map[string]int
	Next *Box
}

// ---- arithmetic, bounds, nil ----

func OkAbs(x int) int {
	if x < 0 {
		if x == -9223372036854775808 {
			return 0
		}
		return -x
	}
	return x
}

func BadAbsOverflow(x int) int {
	if x < 0 {
		return -x // overflows for MinInt64
	}
	return x
}

func BadPostOffByOne(a, b int) int {
	if a < b {
		return a
	}
	return b + 1
}

func OkIndex(s []int, i int) int {
	if i >= 0 && i < len(s) {
		return s[i]
	}
	return 0
}

func BadIndex(s []int, i int) int {
	if i >= 0 && i <= len(s) {
		return s[i]
	}
	return 0
}

func BadNilDeref(b *Box) int {
	return b.Next.N
}

func OkNilChecked(b *Box) int {
	if b.Next != nil {
		return b.Next.N
	}
	return 0
}

func BadNilMapWrite(b *Box) {
	b.M["x"] = 1
}

func BadDivZero(a, b int) int {
	return a / b
}

func BadUint32Wrap(v uint32) uint32 {
	return v + 1 // contract claims result > v
}

// ---- loops ----

func OkSum(s []int) int {
	t := 0
	for _, v := range s {
		if v > 0 && v < 100 && t < 1000000 {
			t += v
		}
	}
	return t
}

func BadInvNotInductive(n int) int {
	i := 0
	for i < n {
		i += 2
	}
	return i
}

func BadNoTermination(n uint32) int {
	c := 0
	for i := uint32(0); i <= n; i++ { // never ends for n == MaxUint32
		c = 1
	}
	return c
}

// ---- frames / heap ----

func OkSetN(b *Box, v int) {
	b.N = v
}

func BadFrameWritesOther(b, c *Box, v int) {
	b.N = v
	c.N = v
}

func BadAliasIgnored(b, c *Box) int {
	b.N = 1
	c.N = 2
	return b.N // contract claims 1, wrong when b == c
}

func OkAliasHandled(b, c *Box) int {
	b.N = 1
	c.N = 2
	return b.N
}

// ---- loop write analysis: the target changes from iteration to iteration ----

// the loop writes m1 in the first iteration and m2 afterwards: a contract that claims m2 is
// unchanged must fail
func BadLoopSwitchesTarget(m1, m2 map[string]int, n int) {
	m := m1
	for i := 0; i < n; i++ {
		m["k"] = i
		m = m2
	}
}

func OkLoopFixedTarget(m1, m2 map[string]int, n int) {
	for i := 0; i < n; i++ {
		m1["k"] = i
	}
}

// append into a slice that lives in a caller-visible array: the loop may overwrite elements of
// the caller's array beyond len
func BadAppendIntoCallerArray(s []int, n int) {
	t := s[:0]
	for i := 0; i < n; i++ {
		t = append(t, 7)
	}
}

func OkAppendFresh(n int) []int {
	var t []int
	for i := 0; i < n; i++ {
		t = append(t, 7)
	}
	return t
}

// a slice that starts nil in an EARLIER loop is not fresh in the second loop's region
func BadSecondLoopAppend(keep []int, n int) []int {
	var t []int
	for i := 0; i < n; i++ {
		t = append(t, 1)
	}
	u := t
	for i := 0; i < n; i++ {
		t = append(t, 2)
	}
	_ = u
	return t
}

// ---- calls ----

func newBox() *Box { return &Box{} }

// allocating calls must not make paths contradictory (anything would be "proved" after them)
func BadFalseAfterAlloc() int {
	b := newBox()
	c := newBox()
	b.N = 1
	c.N = 2
	return b.N + c.N // contract claims 4
}

func put(m map[string]int, v int) { m["k"] = v }

// the same helper is called with a fresh map and then with the caller's map inside a loop:
// freshness of the parameter must not leak from one call site to the other
func BadParamFreshnessLeaks(m map[string]int, n int) {
	for i := 0; i < n; i++ {
		f := map[string]int{}
		put(f, i)
		put(m, i)
	}
}

func OkParamFresh(m map[string]int, n int) {
	for i := 0; i < n; i++ {
		f := map[string]int{}
		put(f, i)
	}
}

func inc(b *Box) { b.N++ }

func BadCalleeContractTooWeakUsed(b *Box) int {
	b.N = 1
	inc(b)
	return b.N // inc's contract only says N grows; claiming == 2 must fail (modular)
}

// ---- old() ----

func BadOldConfusion(b *Box) {
	b.N = b.N + 1 // contract claims b.N == old(b.N)
}

// ---- quantified postcondition over a whole view ----

func BadClearsOther(m map[string]int, k string) {
	m[k] = 1
	delete(m, "other") // contract claims every other key is unchanged
}

func OkSetsOne(m map[string]int, k string) {
	m[k] = 1
}

// ---- captured slice variables that only grow by append ----

func each(n int, f func(i int)) {
	for i := 0; i < n; i++ {
		f(i)
	}
}

func OkSelfAppendCaptured(keep []int, n int) []int {
	var acc []int
	each(n, func(i int) {
		acc = append(acc, i)
	})
	return acc
}

// the captured variable starts as the caller's slice: appending may write the caller's array
func BadAppendCapturedCallerSlice(keep []int, n int) []int {
	acc := keep[:0]
	each(n, func(i int) {
		acc = append(acc, i)
	})
	return acc
}

// ---- vacuity: an ASSUMED contract that contradicts itself must not prove the caller ----

func oracle() *Box { return nil }

func BadVacuousAfterAssumedContract() int {
	b := oracle()
	if b == nil {
		return 1
	}
	return 2 // contract claims result == 3: "proved" only if the path after oracle() is dead
}

// ---- loop writes: element of a slice fixed before the loop (pointwise by backing array) ----

func OkLoopWritesOwnSlice(a []int, other []int) {
	for i := 0; i < len(a); i++ {
		a[i] = 0
	}
}

// the loop writes the OTHER slice's array although the frame lists only elems(a)
func BadLoopWritesOtherSlice(a []int, other []int) {
	for i := 0; i < len(a) && i < len(other); i++ {
		other[i] = 0
	}
}

// ---- loop writes: map made inside the loop body (fresh) vs. a map that existed before ----

func OkLoopFillsFreshMap(confs []map[string]int) int {
	n := 0
	for _, c := range confs {
		cp := make(map[string]int)
		for k, v := range c {
			cp[k] = v
		}
		cp["extra"] = 1
		n = len(cp)
	}
	return n
}

// the loop stores into the caller's maps: the frame (fresh maps only) must fail
func BadLoopWritesCallerMap(confs []map[string]int) int {
	n := 0
	for _, c := range confs {
		cp := c
		if n > 0 {
			cp = make(map[string]int)
		}
		if c != nil {
			c["extra"] = 1
		}
		n = len(cp)
	}
	return n
}
