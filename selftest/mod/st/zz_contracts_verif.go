//go:build verif

package st

//@ func [ST] OkAbs
//@   ensures result >= 0
//@   modifies nothing
//@ func [ST] BadAbsOverflow
//@   ensures result >= 0
//@   modifies nothing
//@ func [ST] BadPostOffByOne
//@   ensures result <= a && result <= b
//@ func [ST] OkIndex
//@   ensures i >= 0 && i < len(s) ==> result == s[i]
//@ func [ST] BadIndex
//@   ensures true
//@ func [ST] BadNilDeref
//@   requires b != nil
//@   ensures true
//@ func [ST] OkNilChecked
//@   requires b != nil
//@   ensures true
//@ func [ST] BadNilMapWrite
//@   requires b != nil
//@   ensures true
//@   modifies map(b.M)
//@ func [ST] BadDivZero
//@   requires a >= 0 && b >= 0
//@   ensures true
//@ func [ST] BadUint32Wrap
//@   ensures result > v

//@ func [ST] OkSum
//@   ensures result >= 0
//@   loop 0 invariant t >= 0 && t <= 1000100
//@ func [ST] BadInvNotInductive
//@   requires n >= 0 && n < 1000
//@   ensures result == n
//@   loop 0 invariant i <= n
//@   loop 0 decreases n - i
//@ func [ST] BadNoTermination
//@   ensures result <= 1
//@   loop 0 invariant c <= 1
//@   loop 0 decreases n - i

//@ func [ST] OkSetN
//@   requires b != nil
//@   ensures b.N == v
//@   modifies b.N
//@ func [ST] BadFrameWritesOther
//@   requires b != nil && c != nil
//@   ensures b.N == v
//@   modifies b.N
//@ func [ST] BadAliasIgnored
//@   requires b != nil && c != nil
//@   ensures result == 1
//@   modifies b.N, c.N
//@ func [ST] OkAliasHandled
//@   requires b != nil && c != nil
//@   ensures b != c ==> result == 1
//@   modifies b.N, c.N

//@ func [ST] BadLoopSwitchesTarget
//@   requires m1 != nil && m2 != nil && m1 != m2
//@   ensures dom(m2) == old(dom(m2)) && vals(m2) == old(vals(m2))
//@   modifies map(m1), map(m2)
//@ func [ST] OkLoopFixedTarget
//@   requires m1 != nil && m2 != nil && m1 != m2
//@   ensures dom(m2) == old(dom(m2)) && vals(m2) == old(vals(m2))
//@   modifies map(m1)
//@ func [ST] BadAppendIntoCallerArray
//@   requires cap(s) >= 1 && n >= 1
//@   ensures true
//@   modifies nothing
//@ func [ST] OkAppendFresh
//@   requires n >= 0
//@   ensures result == nil || fresh(result)
//@   modifies nothing
//@   loop 0 invariant t == nil || fresh(t)
//@ func [ST] BadSecondLoopAppend
//@   requires n >= 1
//@   ensures true
//@   modifies nothing
//@   loop 1 invariant len(u) >= 1 && u[0] == 1

//@ func newBox
//@   ensures result != nil && fresh(result) && result.N == 0
//@   modifies fresh Box.*
//@ func [ST] BadFalseAfterAlloc
//@   ensures result == 4
//@ func put
//@   requires m != nil
//@   modifies map(m)
//@ func [ST] BadParamFreshnessLeaks
//@   requires m != nil
//@   ensures dom(m) == old(dom(m)) && vals(m) == old(vals(m))
//@   modifies map(m)
//@ func [ST] OkParamFresh
//@   requires m != nil
//@   ensures dom(m) == old(dom(m)) && vals(m) == old(vals(m))
//@   modifies nothing
//@ func inc
//@   requires b != nil
//@   ensures b.N > old(b.N)
//@   modifies b.N
//@ func [ST] BadCalleeContractTooWeakUsed
//@   requires b != nil
//@   ensures result == 2
//@   modifies b.N

//@ func [ST] BadOldConfusion
//@   requires b != nil && b.N < 100 && b.N > -100
//@   ensures b.N == old(b.N)
//@   modifies b.N

//@ func [ST] BadClearsOther
//@   requires m != nil && k != "other"
//@   ensures forall j string :: j != k ==> (j in m) == old(j in m) && m[j] == old(m[j])
//@   modifies map(m)
//@ func [ST] OkSetsOne
//@   requires m != nil
//@   ensures forall j string :: j != k ==> (j in m) == old(j in m) && m[j] == old(m[j])
//@   modifies map(m)

//@ func each inline
//@ func [ST] OkSelfAppendCaptured
//@   requires n >= 0
//@   ensures true
//@   modifies nothing
//@ func [ST] BadAppendCapturedCallerSlice
//@   requires n >= 1 && cap(keep) >= 1
//@   ensures true
//@   modifies nothing

//@ func oracle trusted
//@   ensures result != nil && result == nil
//@ func [ST] BadVacuousAfterAssumedContract
//@   ensures result == 3

//@ func [ST] OkLoopWritesOwnSlice
//@   modifies elems(a)
//@   loop 0 invariant 0 <= i
//@ func [ST] BadLoopWritesOtherSlice
//@   modifies elems(a)
//@   loop 0 invariant 0 <= i
//@ func [ST] OkLoopFillsFreshMap
//@   modifies fresh mapsof(map[string]int)
//@   loop 0 invariant true
//@   loop 1 invariant true
//@ func [ST] BadLoopWritesCallerMap
//@   modifies fresh mapsof(map[string]int)
//@   loop 0 invariant true
