module tkestack.io/galaxy

go 1.21
